//! Randomized convergence exploration used for NOTES.md (not a finding; passes on the unmodified
//! tree).  Place under datacake-eventual-consistency/tests/ and run with
//!   SEEDS=300 cargo test --offline -p datacake-eventual-consistency \
//!       --features verif,test-utils --test c01_random_histories -- --nocapture
//! Operations are issued sequentially per node (so finding 1 is not exercised) and all within
//! 3599s of injected wall time (so finding 2 is not exercised).  `REV=1` reverses the document
//! list of every hand-built batch, i.e. injects finding 1, as a sanity check of the harness.
use std::collections::BTreeMap;
use std::marker::PhantomData;
use std::net::SocketAddr;
use std::sync::Arc;

use datacake_crdt::verif_clock::set_wall_ms;
use datacake_crdt::HLCTimestamp;
use datacake_eventual_consistency::test_utils::MemStore;
use datacake_eventual_consistency::verif::{
    repair_peer,
    repair_peer_concurrent,
    BatchPayload,
    ConsistencyClient,
    ConsistencyService,
    Context,
    KeyspaceGroup,
    MultiDel,
    MultiPutPayload,
    MultiRemovePayload,
    MultiSet,
    ReplicationService,
    Tracker,
    CONSISTENCY_SOURCE_ID,
};
use datacake_eventual_consistency::{Document, DocumentMetadata, Storage};
use datacake_node::{Clock, RpcNetwork};
use datacake_rpc::Server;
use rand::rngs::StdRng;
use rand::seq::SliceRandom;
use rand::{Rng, SeedableRng};

static KS: &str = "ks";

struct Node {
    id: u8,
    addr: SocketAddr,
    clock: Clock,
    group: KeyspaceGroup<MemStore>,
    network: RpcNetwork,
    _server: Server,
}

async fn start_node(id: u8) -> Node {
    let addr = test_helper::get_unused_addr();
    let clock = Clock::new(id);
    let group = KeyspaceGroup::new(Arc::new(MemStore::default()), clock.clone()).await;
    let network = RpcNetwork::default();
    let server = Server::listen(addr).await.expect("listen");
    server.add_service(ConsistencyService::new(group.clone(), network.clone()));
    server.add_service(ReplicationService::new(group.clone()));
    Node {
        id,
        addr,
        clock,
        group,
        network,
        _server: server,
    }
}

#[derive(Clone)]
enum Msg {
    Puts(Vec<Document>),
    Dels(Vec<DocumentMetadata>),
    Batch(Vec<Document>, Vec<DocumentMetadata>),
}

async fn deliver(from: &Node, to: &Node, msg: &Msg) {
    let channel = from.network.get_or_connect(to.addr);
    let mut c = ConsistencyClient::<MemStore>::new(from.clock.clone(), channel);
    match msg {
        Msg::Puts(docs) if docs.len() == 1 => {
            c.put(KS, docs[0].clone(), from.id, from.addr).await.unwrap()
        },
        Msg::Puts(docs) => c
            .multi_put(KS, docs.clone().into_iter(), from.id, from.addr)
            .await
            .unwrap(),
        Msg::Dels(docs) if docs.len() == 1 => {
            c.del(KS, docs[0].id, docs[0].last_updated).await.unwrap()
        },
        Msg::Dels(docs) => c
            .multi_del(KS, docs.clone().into_iter().collect())
            .await
            .unwrap(),
        Msg::Batch(puts, dels) => {
            let timestamp = from.clock.get_time().await;
            let batch = BatchPayload {
                timestamp,
                modified: if puts.is_empty() {
                    Default::default()
                } else {
                    [MultiPutPayload {
                        keyspace: KS.to_string(),
                        ctx: Some(Context {
                            node_id: from.id,
                            node_addr: from.addr,
                        }),
                        documents: puts.clone().into_iter().collect(),
                        timestamp,
                    }]
                    .into_iter()
                    .collect()
                },
                removed: if dels.is_empty() {
                    Default::default()
                } else {
                    [MultiRemovePayload {
                        keyspace: KS.to_string(),
                        documents: dels.clone().into_iter().collect(),
                        timestamp,
                    }]
                    .into_iter()
                    .collect()
                },
            };
            c.apply_batch(&batch).await.unwrap()
        },
    }
}

async fn live(node: &Node, keys: u64) -> BTreeMap<u64, (String, HLCTimestamp)> {
    let mut out = BTreeMap::new();
    for id in 0..keys {
        if let Some(doc) = node.group.storage().get(KS, id).await.unwrap() {
            out.insert(
                id,
                (
                    String::from_utf8_lossy(doc.data()).to_string(),
                    doc.last_updated(),
                ),
            );
        }
    }
    // cross-check with iter_metadata
    let meta = node
        .group
        .storage()
        .iter_metadata(KS)
        .await
        .unwrap()
        .filter(|m| !m.2)
        .map(|m| (m.0, m.1))
        .collect::<BTreeMap<_, _>>();
    let from_get = out.iter().map(|(k, v)| (*k, v.1)).collect::<BTreeMap<_, _>>();
    assert_eq!(meta, from_get, "metadata vs get mismatch at node {}", node.id);
    out
}

async fn repair(
    nodes: &[Node],
    trackers: &mut BTreeMap<(usize, usize), Tracker>,
    a: usize,
    b: usize,
    mode: u8,
) {
    let tr = trackers.entry((a, b)).or_default();
    if mode == 0 {
        repair_peer_concurrent(
            nodes[a].group.clone(),
            nodes[a].network.clone(),
            tr,
            nodes[b].id,
            nodes[b].addr,
        )
        .await
        .unwrap();
    } else {
        repair_peer(
            nodes[a].group.clone(),
            nodes[a].network.clone(),
            tr,
            nodes[b].id,
            nodes[b].addr,
            mode == 1,
        )
        .await
        .unwrap();
    }
}

async fn one_run(seed: u64, base_ms: u64) -> Result<(), String> {
    let mut rng = StdRng::seed_from_u64(seed);
    let mut wall = base_ms;
    set_wall_ms(Some(wall));
    let n_nodes = rng.gen_range(2..=3u8);
    let mut nodes = Vec::new();
    for id in 1..=n_nodes {
        nodes.push(start_node(id).await);
    }
    let keys = 4u64;
    let budget_ms: u64 = 3_599_000;
    let n_ops = rng.gen_range(3..14);
    let mut expected: BTreeMap<u64, (HLCTimestamp, Option<String>)> = BTreeMap::new();
    let mut pending: Vec<(usize, usize, Msg)> = Vec::new();
    let mut batch_acc: Vec<(Vec<Document>, Vec<DocumentMetadata>)> =
        (0..nodes.len()).map(|_| (vec![], vec![])).collect();
    let mut trackers: BTreeMap<(usize, usize), Tracker> = BTreeMap::new();
    let mut spent = 0u64;

    for opn in 0..n_ops {
        // advance time
        let step = match rng.gen_range(0..4) {
            0 => 0,
            1 => rng.gen_range(0..20),
            2 => rng.gen_range(0..5_000),
            _ => rng.gen_range(0..(budget_ms / n_ops as u64)),
        };
        if spent + step < budget_ms {
            spent += step;
            wall += step;
            set_wall_ms(Some(wall));
        }
        let at = rng.gen_range(0..nodes.len());
        let node = &nodes[at];
        let n_keys = if rng.gen_bool(0.6) { 1 } else { rng.gen_range(1..=3) };
        let mut ids = (0..keys).collect::<Vec<_>>();
        ids.shuffle(&mut rng);
        ids.truncate(n_keys);
        let ts = node.clock.get_time().await;
        let ks = node.group.get_or_create_keyspace(KS).await;
        let msg = if rng.gen_bool(0.6) {
            let docs = ids
                .iter()
                .map(|id| Document::new(*id, ts, format!("op{opn}-n{}", node.id)))
                .collect::<Vec<_>>();
            ks.send(MultiSet::<MemStore> {
                source: CONSISTENCY_SOURCE_ID,
                docs: docs.clone().into_iter().collect(),
                ctx: None,
                _marker: PhantomData,
            })
            .await
            .unwrap();
            for d in docs.iter() {
                let e = expected.entry(d.id()).or_insert((ts, None));
                if e.0 <= ts {
                    *e = (ts, Some(String::from_utf8_lossy(d.data()).to_string()));
                }
            }
            batch_acc[at].0.extend(docs.clone());
            Msg::Puts(docs)
        } else {
            let docs = ids
                .iter()
                .map(|id| DocumentMetadata::new(*id, ts))
                .collect::<Vec<_>>();
            ks.send(MultiDel::<MemStore> {
                source: CONSISTENCY_SOURCE_ID,
                docs: docs.clone().into_iter().collect(),
                _marker: PhantomData,
            })
            .await
            .unwrap();
            for d in docs.iter() {
                let e = expected.entry(d.id).or_insert((ts, None));
                if e.0 <= ts {
                    *e = (ts, None);
                }
            }
            batch_acc[at].1.extend(docs.clone());
            Msg::Dels(docs)
        };
        // direct messages: delivered / delayed / duplicated / lost
        for to in 0..nodes.len() {
            if to == at {
                continue;
            }
            match rng.gen_range(0..5) {
                0 => deliver(&nodes[at], &nodes[to], &msg).await,
                1 => pending.push((at, to, msg.clone())),
                2 => {
                    deliver(&nodes[at], &nodes[to], &msg).await;
                    pending.push((at, to, msg.clone()));
                },
                _ => {},
            }
        }
        // maybe flush a batch from a random node
        if rng.gen_bool(0.3) {
            let b = rng.gen_range(0..nodes.len());
            let (mut p, d) = std::mem::take(&mut batch_acc[b]);
            if std::env::var("REV").is_ok() {
                p.reverse();
            }
            if !p.is_empty() || !d.is_empty() {
                for to in 0..nodes.len() {
                    if to != b {
                        let m = Msg::Batch(p.clone(), d.clone());
                        match rng.gen_range(0..3) {
                            0 => deliver(&nodes[b], &nodes[to], &m).await,
                            1 => pending.push((b, to, m)),
                            _ => {},
                        }
                    }
                }
            }
        }
        // maybe deliver one delayed message
        if rng.gen_bool(0.3) && !pending.is_empty() {
            let i = rng.gen_range(0..pending.len());
            let (f, t, m) = pending.swap_remove(i);
            deliver(&nodes[f], &nodes[t], &m).await;
        }
        // maybe a repair in the middle of the history
        if rng.gen_bool(0.3) {
            let a = rng.gen_range(0..nodes.len());
            let mut b = rng.gen_range(0..nodes.len());
            if a == b {
                b = (b + 1) % nodes.len();
            }
            let mode = rng.gen_range(0..3);
            repair(&nodes, &mut trackers, a, b, mode).await;
        }
    }

    // half of the delayed messages arrive now, in random order
    pending.shuffle(&mut rng);
    let keep_late = pending.split_off(pending.len() / 2);
    for (f, t, m) in pending {
        deliver(&nodes[f], &nodes[t], &m).await;
    }

    // final anti-entropy: every ordered pair, random order, N rounds.
    let mut pairs = Vec::new();
    for a in 0..nodes.len() {
        for b in 0..nodes.len() {
            if a != b {
                pairs.push((a, b));
            }
        }
    }
    for _ in 0..nodes.len() {
        pairs.shuffle(&mut rng);
        for (a, b) in pairs.iter().copied() {
            let mode = rng.gen_range(0..3);
            repair(&nodes, &mut trackers, a, b, mode).await;
        }
    }
    // very late duplicates
    for (f, t, m) in keep_late {
        deliver(&nodes[f], &nodes[t], &m).await;
    }

    let want = expected
        .iter()
        .filter_map(|(k, (ts, v))| v.clone().map(|v| (*k, (v, *ts))))
        .collect::<BTreeMap<_, _>>();
    for n in nodes.iter() {
        let got = live(n, keys).await;
        if got != want {
            return Err(format!(
                "seed {seed}: node {} serves {:?}\n   expected {:?}",
                n.id, got, want
            ));
        }
    }
    Ok(())
}

#[tokio::test(flavor = "multi_thread", worker_threads = 2)]
async fn random_histories() {
    let n: u64 = std::env::var("SEEDS")
        .ok()
        .and_then(|v| v.parse().ok())
        .unwrap_or(200);
    let start: u64 = std::env::var("START")
        .ok()
        .and_then(|v| v.parse().ok())
        .unwrap_or(0);
    let mut fails = 0;
    for seed in start..start + n {
        let base = 100_000_000_000u64 + (seed - start) * 10_000_000;
        if let Err(e) = one_run(seed, base).await {
            println!("{e}");
            fails += 1;
        }
    }
    set_wall_ms(None);
    assert_eq!(fails, 0);
}
