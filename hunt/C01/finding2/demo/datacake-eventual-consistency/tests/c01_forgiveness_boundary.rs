//! C01 counterexample at the exact forgiveness boundary.
//!
//! Three operations are issued at node 1 through its real `Clock`:
//!
//!   op1  put(k1)   at wall time W            -> timestamp (W,        counter 0,  node 1)
//!   op2  del(k2)   at wall time W + 3600s    -> timestamp (W + 3600, counter c2 >= 1, node 1)
//!   op3  put(k3)   at wall time W + 3600s    -> timestamp (W + 3600, counter c3 > c2, node 1)
//!
//! so all operations are within one forgiveness period (3600s) of each other.  The direct
//! replication messages of op1 and op2 to node 2 are lost, the one of op3 is delivered.  Then
//! node 2 runs an anti-entropy exchange with node 1 in which the removal half is applied before
//! the modification half (which is also what the production code does in practice: the removal
//! task only talks to the local actor, the modification task has to fetch documents first).
//!
//! `NodeVersions::compute_safe_last_stamp` builds the cut-off for node 1 as
//! `(min_over_sources(max stamp).time - 3600s, min.counter, node)`, i.e. it keeps the *counter*
//! of the newest stamp.  After op3 (consistency source) and op2 (repair source) the cut-off is
//! `(W, c2, node 1)`, and op1 = `(W, 0, node 1)` is "before the last observed event": the fetched
//! document k1 is silently dropped by `will_apply`, the exchange reports success, the tracker is
//! advanced, and every later exchange excludes k1 from the diff.  Node 1 serves k1, node 2 never
//! does.
//!
//! The wall clock is driven with the `verif` hook `datacake_crdt::verif_clock::set_wall_ms`;
//! the nodes are assembled from the `verif` re-exports (real `Clock`, `KeyspaceGroup`,
//! `ConsistencyService`, `ReplicationService`, RPC server/clients and the poller's exchange).
use std::marker::PhantomData;
use std::net::SocketAddr;
use std::sync::Arc;

use datacake_crdt::verif_clock::set_wall_ms;
use datacake_eventual_consistency::test_utils::MemStore;
use datacake_eventual_consistency::verif::{
    repair_peer,
    repair_peer_concurrent,
    ConsistencyClient,
    ConsistencyService,
    Del,
    KeyspaceGroup,
    ReplicationService,
    Set,
    Tracker,
    CONSISTENCY_SOURCE_ID,
};
use datacake_eventual_consistency::{Document, DocumentMetadata, Storage};
use datacake_node::{Clock, RpcNetwork};
use datacake_rpc::Server;

static KS: &str = "my-keyspace";
const HOUR_MS: u64 = 3_600_000;

struct Node {
    id: u8,
    addr: SocketAddr,
    clock: Clock,
    group: KeyspaceGroup<MemStore>,
    network: RpcNetwork,
    _server: Server,
}

async fn start_node(id: u8) -> Node {
    let addr = test_helper::get_unused_addr();
    let clock = Clock::new(id);
    let group = KeyspaceGroup::new(Arc::new(MemStore::default()), clock.clone()).await;
    let network = RpcNetwork::default();
    let server = Server::listen(addr).await.expect("listen");
    server.add_service(ConsistencyService::new(group.clone(), network.clone()));
    server.add_service(ReplicationService::new(group.clone()));
    Node {
        id,
        addr,
        clock,
        group,
        network,
        _server: server,
    }
}

/// The local half of `ReplicatedStoreHandle::put`.
async fn put(node: &Node, id: u64, data: &str) -> Document {
    let last_updated = node.clock.get_time().await;
    let doc = Document::new(id, last_updated, data.as_bytes().to_vec());
    let keyspace = node.group.get_or_create_keyspace(KS).await;
    keyspace
        .send(Set::<MemStore> {
            source: CONSISTENCY_SOURCE_ID,
            doc: doc.clone(),
            ctx: None,
            _marker: PhantomData,
        })
        .await
        .expect("local put");
    doc
}

/// The local half of `ReplicatedStoreHandle::del`.
async fn del(node: &Node, id: u64) -> DocumentMetadata {
    let last_updated = node.clock.get_time().await;
    let doc = DocumentMetadata { id, last_updated };
    let keyspace = node.group.get_or_create_keyspace(KS).await;
    keyspace
        .send(Del::<MemStore> {
            source: CONSISTENCY_SOURCE_ID,
            doc,
            _marker: PhantomData,
        })
        .await
        .expect("local del");
    doc
}

/// The direct replication message of a put (what `put` sends to each selected replica).
async fn deliver_put(from: &Node, to: &Node, doc: Document) {
    let channel = from.network.get_or_connect(to.addr);
    ConsistencyClient::<MemStore>::new(from.clock.clone(), channel)
        .put(KS, doc, from.id, from.addr)
        .await
        .expect("direct put");
}

#[derive(Copy, Clone, Debug)]
enum Halves {
    RemovalsFirst,
    ModificationsFirst,
    /// `begin_keyspace_sync` as the production poller runs it (both halves spawned).
    Production,
}

async fn exchange(at: &Node, with: &Node, tracker: &mut Tracker, halves: Halves) {
    let report = match halves {
        Halves::Production => {
            repair_peer_concurrent(
                at.group.clone(),
                at.network.clone(),
                tracker,
                with.id,
                with.addr,
            )
            .await
        },
        _ => {
            repair_peer(
                at.group.clone(),
                at.network.clone(),
                tracker,
                with.id,
                with.addr,
                matches!(halves, Halves::RemovalsFirst),
            )
            .await
        },
    }
    .expect("anti-entropy exchange");
    println!(
        "  node {} <- node {}: (keyspace, modified, removed) = {:?}",
        at.id, with.id, report
    );
}

async fn live_docs(node: &Node) -> Vec<(u64, String, String)> {
    let mut out = Vec::new();
    for id in [1u64, 2, 3] {
        if let Some(doc) = node.group.storage().get(KS, id).await.unwrap() {
            out.push((
                id,
                String::from_utf8_lossy(doc.data()).to_string(),
                doc.last_updated().to_string(),
            ));
        }
    }
    out
}

/// Runs the history with `gap_ms` of wall time between op1 and op2/op3 and returns what the
/// two nodes serve after two full rounds of anti-entropy.
async fn run(
    base_ms: u64,
    gap_ms: u64,
    removals_first: Halves,
) -> (Vec<(u64, String, String)>, Vec<(u64, String, String)>) {
    set_wall_ms(Some(base_ms));
    let n1 = start_node(1).await;
    let n2 = start_node(2).await;

    // op1 at wall time W.
    let w = base_ms + 10_000;
    set_wall_ms(Some(w));
    let op1 = put(&n1, 1, "k1-value").await;
    println!("  op1 put(1)  @ {}", op1.last_updated());
    // ... its direct message to node 2 is lost.

    // op2, op3 at wall time W + gap.
    set_wall_ms(Some(w + gap_ms));
    let _ = n1.clock.get_time().await; // any other use of the clock in that 4ms tick
    let op2 = del(&n1, 2).await;
    println!("  op2 del(2)  @ {}", op2.last_updated);
    // ... its direct message to node 2 is lost as well.
    let op3 = put(&n1, 3, "k3-value").await;
    println!("  op3 put(3)  @ {}", op3.last_updated());
    deliver_put(&n1, &n2, op3.clone()).await;

    // Quiescence.  Two full rounds of pairwise anti-entropy; the second round uses fresh
    // trackers, i.e. it re-fetches and re-diffs the peer state unconditionally.
    let mut t21 = Tracker::default();
    let mut t12 = Tracker::default();
    exchange(&n2, &n1, &mut t21, removals_first).await;
    exchange(&n1, &n2, &mut t12, removals_first).await;
    exchange(&n2, &n1, &mut t21, removals_first).await;
    exchange(&n1, &n2, &mut t12, removals_first).await;
    let mut t21 = Tracker::default();
    let mut t12 = Tracker::default();
    exchange(&n2, &n1, &mut t21, removals_first).await;
    exchange(&n1, &n2, &mut t12, removals_first).await;

    (live_docs(&n1).await, live_docs(&n2).await)
}

#[tokio::test]
async fn operations_exactly_one_forgiveness_period_apart_converge() {
    let base = 100_000_000_000u64;

    // Controls: one 4ms clock tick less than an hour, and the other order of the two halves.
    println!("control A: gap = 3600s - 4ms, removals first");
    let (a, b) = run(base, HOUR_MS - 4, Halves::RemovalsFirst).await;
    assert_eq!(a, b, "control A should converge");
    println!("control B: gap = 3600s, modifications first");
    let (a, b) = run(base + 10_000_000, HOUR_MS, Halves::ModificationsFirst).await;
    assert_eq!(a, b, "control B should converge");

    println!("schedule under test: gap = 3600s, removals first");
    let (n1, n2) = run(base + 20_000_000, HOUR_MS, Halves::RemovalsFirst).await;
    println!("node 1 serves {n1:?}");
    println!("node 2 serves {n2:?}");

    println!("same history, production `begin_keyspace_sync` (both halves spawned)");
    let (p1, p2) = run(base + 30_000_000, HOUR_MS, Halves::Production).await;
    println!("node 1 serves {p1:?}");
    println!("node 2 serves {p2:?}");
    set_wall_ms(None);

    assert_eq!(
        n1, n2,
        "nodes disagree after quiescence and three full rounds of anti-entropy"
    );
    assert_eq!(
        p1, p2,
        "nodes disagree after quiescence and three full rounds of anti-entropy (production path)"
    );
}
