//! C01 counterexample: two concurrent `put`s of the SAME document id on ONE node.
//!
//! `ReplicatedStoreHandle::put` takes its HLC timestamp first, builds the document, applies it
//! to the local keyspace actor and only then registers the mutation with the 1s batching
//! distributor.  If put X took the older timestamp but reaches the keyspace actor after put Y
//! (ordinary task scheduling), the distributor's batch lists the documents as `[Y@t2, X@t1]`.
//!
//! On the receiving node `KeyspaceActor::on_multi_set` filters the batch with `will_apply`
//! against the *unchanged* set (both entries pass), hands them to `Storage::multi_put` in list
//! order (so the older X overwrites the newer Y in storage) and then inserts them into the
//! in-memory set in *timestamp* order (so the set says `t2`).  The receiver's storage now holds
//! X@t1 while its set, and the origin's set, say t2: no later anti-entropy exchange sees a
//! difference, and the two nodes serve different bytes/timestamps for the document forever.
//!
//! To make the schedule deterministic the older put's payload is a type whose
//! `Into<Vec<u8>>` (called by `put` right after it took the timestamp) waits until the newer
//! put has finished.  Nothing but the public API (+ `test-utils` for `MemStore`) is used.
use std::sync::mpsc as std_mpsc;
use std::time::Duration;

use datacake_eventual_consistency::test_utils::MemStore;
use datacake_eventual_consistency::{
    EventuallyConsistentStoreExtension,
    ReplicatedStoreHandle,
};
use datacake_node::{
    ConnectionConfig,
    Consistency,
    DCAwareSelector,
    DatacakeNode,
    DatacakeNodeBuilder,
};

static KEYSPACE: &str = "my-keyspace";
/// Anti-entropy runs 0.5s after start-up and then every 4s; the operations are issued ~2s after
/// start-up, so the 1s batch broadcast reaches the peer before its next anti-entropy round
/// (as it practically always does in production, where the repair interval is one hour),
/// and three full anti-entropy rounds run after the last operation before the final reads.
const REPAIR_INTERVAL: Duration = Duration::from_secs(4);

/// A payload which is turned into bytes lazily.  `into()` is invoked by `put` after the
/// operation's timestamp has been taken and before the document is applied locally.
struct LazyPayload {
    bytes: Vec<u8>,
    /// Tells the test that `put` has already taken this operation's timestamp.
    has_timestamp: tokio::sync::mpsc::UnboundedSender<()>,
    /// Released by the test once the newer put has completed.
    resume: std_mpsc::Receiver<()>,
}

impl From<LazyPayload> for Vec<u8> {
    fn from(p: LazyPayload) -> Vec<u8> {
        let _ = p.has_timestamp.send(());
        let _ = p.resume.recv_timeout(Duration::from_secs(5));
        p.bytes
    }
}

/// Issues `older` and `newer` for `doc_id` at the given node such that `older` holds the
/// smaller timestamp but is applied (and registered with the distributor) second.
async fn racing_puts(handle: &ReplicatedStoreHandle<MemStore>, doc_id: u64) {
    let (ts_tx, mut ts_rx) = tokio::sync::mpsc::unbounded_channel();
    let (resume_tx, resume_rx) = std_mpsc::channel();

    let older = {
        let handle = handle.clone();
        tokio::spawn(async move {
            handle
                .put(
                    KEYSPACE,
                    doc_id,
                    LazyPayload {
                        bytes: format!("older-{doc_id}").into_bytes(),
                        has_timestamp: ts_tx,
                        resume: resume_rx,
                    },
                    Consistency::None,
                )
                .await
                .expect("older put");
        })
    };

    // The older put now holds its timestamp.
    ts_rx.recv().await.expect("older put reached payload conversion");

    handle
        .put(
            KEYSPACE,
            doc_id,
            format!("newer-{doc_id}").into_bytes(),
            Consistency::None,
        )
        .await
        .expect("newer put");

    resume_tx.send(()).unwrap();
    older.await.unwrap();
}

#[tokio::test(flavor = "multi_thread", worker_threads = 4)]
async fn concurrent_puts_of_one_key_on_one_node_converge() -> anyhow::Result<()> {
    let _ = tracing_subscriber::fmt::try_init();

    let [node_1, node_2] = connect_cluster().await;

    let store_1 = node_1
        .add_extension(
            EventuallyConsistentStoreExtension::new(MemStore::default())
                .with_repair_interval(REPAIR_INTERVAL),
        )
        .await?;
    let store_2 = node_2
        .add_extension(
            EventuallyConsistentStoreExtension::new(MemStore::default())
                .with_repair_interval(REPAIR_INTERVAL),
        )
        .await?;
    let h1 = store_1.handle();
    let h2 = store_2.handle();

    // Let the membership watcher hand the peers to the distributor / poller.
    tokio::time::sleep(Duration::from_secs(2)).await;

    let doc_ids = [1u64, 2, 3];
    for id in doc_ids {
        racing_puts(&h1, id).await;
    }

    // Sanity: at the origin the newer write won, as last-writer-wins demands.
    for id in doc_ids {
        let doc = h1.get(KEYSPACE, id).await?.expect("doc at origin");
        assert_eq!(doc.data(), format!("newer-{id}").as_bytes());
    }

    // Batch broadcast (1s) + three anti-entropy rounds in each direction.
    tokio::time::sleep(Duration::from_secs(13)).await;

    let mut failures = Vec::new();
    for id in doc_ids {
        let d1 = h1.get(KEYSPACE, id).await?;
        let d2 = h2.get(KEYSPACE, id).await?;
        let show = |d: &Option<datacake_eventual_consistency::Document>| {
            d.as_ref().map(|d| {
                (
                    String::from_utf8_lossy(d.data()).to_string(),
                    d.last_updated().to_string(),
                )
            })
        };
        println!("doc {id}: node-1 = {:?}, node-2 = {:?}", show(&d1), show(&d2));
        if d1 != d2 {
            failures.push(format!(
                "doc {id}: node-1 serves {:?} but node-2 serves {:?}",
                show(&d1),
                show(&d2)
            ));
        }
    }

    // What each node's metadata says.
    for (name, h) in [("node-1", &h1), ("node-2", &h2)] {
        let mut meta = h.iter_metadata(KEYSPACE).await?.collect::<Vec<_>>();
        meta.sort();
        println!(
            "{name} metadata: {:?}",
            meta.iter()
                .map(|(k, ts, dead)| (*k, ts.to_string(), *dead))
                .collect::<Vec<_>>()
        );
    }

    assert!(
        failures.is_empty(),
        "cluster did not converge after quiescence + anti-entropy:\n{}",
        failures.join("\n")
    );

    node_1.shutdown().await;
    node_2.shutdown().await;
    Ok(())
}

/// The same defect without pinning the schedule: plain `Vec<u8>` payloads, many tasks writing
/// the same ids concurrently at one node.  Scheduling alone produces the inversion on some of
/// the ids in (nearly) every run.
#[tokio::test(flavor = "multi_thread", worker_threads = 4)]
async fn unpinned_concurrent_puts_converge() -> anyhow::Result<()> {
    let _ = tracing_subscriber::fmt::try_init();

    let [node_1, node_2] = connect_cluster().await;
    let store_1 = node_1
        .add_extension(
            EventuallyConsistentStoreExtension::new(MemStore::default())
                .with_repair_interval(REPAIR_INTERVAL),
        )
        .await?;
    let store_2 = node_2
        .add_extension(
            EventuallyConsistentStoreExtension::new(MemStore::default())
                .with_repair_interval(REPAIR_INTERVAL),
        )
        .await?;
    let h1 = store_1.handle();
    let h2 = store_2.handle();
    tokio::time::sleep(Duration::from_secs(2)).await;

    const NUM_IDS: u64 = 40;
    const WRITERS: usize = 16;
    let mut tasks = Vec::new();
    for writer in 0..WRITERS {
        let h1 = h1.clone();
        tasks.push(tokio::spawn(async move {
            for id in 0..NUM_IDS {
                h1.put(
                    KEYSPACE,
                    id,
                    format!("writer-{writer}").into_bytes(),
                    Consistency::None,
                )
                .await
                .expect("put");
            }
        }));
    }
    for t in tasks {
        t.await.unwrap();
    }

    tokio::time::sleep(Duration::from_secs(13)).await;

    let mut diverged = Vec::new();
    for id in 0..NUM_IDS {
        let d1 = h1.get(KEYSPACE, id).await?;
        let d2 = h2.get(KEYSPACE, id).await?;
        if d1 != d2 {
            diverged.push((id, d1, d2));
        }
    }
    for (id, d1, d2) in diverged.iter() {
        println!("doc {id}: node-1 = {d1:?}, node-2 = {d2:?}");
    }
    assert!(
        diverged.is_empty(),
        "{} of {NUM_IDS} documents differ between the nodes after quiescence + anti-entropy",
        diverged.len()
    );

    node_1.shutdown().await;
    node_2.shutdown().await;
    Ok(())
}

async fn connect_cluster() -> [DatacakeNode; 2] {
    let node_1_addr = test_helper::get_unused_addr();
    let node_2_addr = test_helper::get_unused_addr();

    let node_1_connection_cfg =
        ConnectionConfig::new(node_1_addr, node_1_addr, [node_2_addr.to_string()]);
    let node_2_connection_cfg =
        ConnectionConfig::new(node_2_addr, node_2_addr, [node_1_addr.to_string()]);

    let node_1 = DatacakeNodeBuilder::<DCAwareSelector>::new(1, node_1_connection_cfg)
        .connect()
        .await
        .unwrap();
    let node_2 = DatacakeNodeBuilder::<DCAwareSelector>::new(2, node_2_connection_cfg)
        .connect()
        .await
        .unwrap();

    node_1
        .wait_for_nodes(&[2], Duration::from_secs(60))
        .await
        .expect("Nodes should connect within timeout.");
    node_2
        .wait_for_nodes(&[1], Duration::from_secs(60))
        .await
        .expect("Nodes should connect within timeout.");

    [node_1, node_2]
}
