//! C03 demo 2: for timestamps inside the first forgiveness period after the datacake epoch
//! the "safe cut off" `max - FORGIVENESS_PERIOD` saturates to second 0 but keeps the HLC
//! counter of the newest operation, so an operation stamped `0s / counter 0` counts as
//! "already observed" as soon as any later operation of the same node with a larger counter
//! has been seen - even when the two are only seconds apart.
//!
//! All timestamps below are distinct and at most 2 s apart (far inside one forgiveness period).

use std::time::Duration;

use datacake_crdt::{HLCTimestamp, OrSWotSet};

const KEYS: u64 = 4;

fn view(set: &OrSWotSet<1>) -> Vec<(u64, Option<HLCTimestamp>)> {
    (0..KEYS).map(|k| (k, set.get(&k).copied())).collect()
}

fn merged(mut left: OrSWotSet<1>, right: &OrSWotSet<1>) -> OrSWotSet<1> {
    left.merge(right.clone());
    left
}

fn stamps(base: Duration) -> (HLCTimestamp, HLCTimestamp) {
    let ts_old = HLCTimestamp::new(base, 0, 0);
    let ts_new = HLCTimestamp::new(base + Duration::from_secs(2), 1, 0);
    assert!(ts_old < ts_new);
    (ts_old, ts_new)
}

fn commutes(base: Duration) -> bool {
    let (ts_old, ts_new) = stamps(base);
    let mut a = OrSWotSet::<1>::default();
    assert!(a.insert(1, ts_old));
    let mut b = OrSWotSet::<1>::default();
    assert!(b.insert(2, ts_new));

    let ab = merged(a.clone(), &b);
    let ba = merged(b.clone(), &a);
    println!("base={base:?}\n  A.merge(B) = {:?}\n  B.merge(A) = {:?}", view(&ab), view(&ba));
    view(&ab) == view(&ba)
}

#[test]
fn control_same_shape_later_in_time_commutes() {
    // Identical history shifted by one day: fine.
    assert!(commutes(Duration::from_secs(86_400)));
}

#[test]
fn merge_is_not_commutative_next_to_the_epoch() {
    assert!(
        commutes(Duration::from_secs(0)),
        "two operations 2 s apart: A.merge(B) and B.merge(A) must give the same live ids"
    );
}

#[test]
fn application_order_matters_next_to_the_epoch() {
    // The same two operations applied to one replica in the two possible orders.
    let (ts_old, ts_new) = stamps(Duration::from_secs(0));

    let mut in_order = OrSWotSet::<1>::default();
    assert!(in_order.insert(1, ts_old));
    assert!(in_order.insert(2, ts_new));

    let mut reversed = OrSWotSet::<1>::default();
    assert!(reversed.insert(2, ts_new));
    let accepted = reversed.insert(1, ts_old); // 2 s late, well inside the forgiveness period
    assert!(accepted, "an operation that is 2 s late must be forgiven");
    assert_eq!(view(&in_order), view(&reversed));
}
