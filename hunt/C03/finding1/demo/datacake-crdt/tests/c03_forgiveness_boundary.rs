//! C03 demo 1: merge is not commutative when two operations of one origin node are exactly
//! one forgiveness period (3600 s) apart and the newer one carries a larger HLC counter.
//!
//! Every timestamp used here is distinct and all of them lie within one forgiveness period
//! (max - min == 3600 s), so the plain last-write-wins laws of C03 must hold.

use std::time::Duration;

use datacake_crdt::{HLCTimestamp, OrSWotSet};

/// The forgiveness period of a non-test build of datacake-crdt (orswot.rs:FORGIVENESS_PERIOD).
const FORGIVENESS: Duration = Duration::from_secs(3_600);

/// Some arbitrary, realistic point in time (about mid 2024 in datacake time).
const T: Duration = Duration::from_secs(50_000_000);

const KEYS: u64 = 4;

fn view(set: &OrSWotSet<1>) -> Vec<(u64, Option<HLCTimestamp>)> {
    (0..KEYS).map(|k| (k, set.get(&k).copied())).collect()
}

fn merged(mut left: OrSWotSet<1>, right: &OrSWotSet<1>) -> OrSWotSet<1> {
    left.merge(right.clone());
    left
}

/// Replica A holds key 1 written by node 0 at `T` (counter `c_old`), replica B holds key 2
/// written by node 0 at `T + 3600s` (counter `c_new`). Nobody ever deleted anything.
fn replicas(c_old: u16, c_new: u16) -> (OrSWotSet<1>, OrSWotSet<1>, HLCTimestamp, HLCTimestamp) {
    let ts_old = HLCTimestamp::new(T, c_old, 0);
    let ts_new = HLCTimestamp::new(T + FORGIVENESS, c_new, 0);
    assert!(ts_old < ts_new);
    assert!(ts_new.datacake_timestamp() - ts_old.datacake_timestamp() <= FORGIVENESS);

    let mut a = OrSWotSet::<1>::default();
    assert!(a.insert(1, ts_old));
    let mut b = OrSWotSet::<1>::default();
    assert!(b.insert(2, ts_new));
    (a, b, ts_old, ts_new)
}

#[test]
fn control_equal_counters_boundary_is_inclusive() {
    // Same shape, the two operations are exactly 3600 s apart, counters equal: merge commutes.
    // This passes and shows that the code itself treats "exactly one period apart" as forgiven.
    let (a, b, ts_old, ts_new) = replicas(0, 0);
    let ab = merged(a.clone(), &b);
    let ba = merged(b.clone(), &a);
    assert_eq!(view(&ab), view(&ba));
    assert_eq!(ab.get(&1), Some(&ts_old));
    assert_eq!(ab.get(&2), Some(&ts_new));
}

#[test]
fn merge_is_not_commutative_at_the_forgiveness_boundary() {
    let (a, b, ts_old, ts_new) = replicas(0, 1);

    let ab = merged(a.clone(), &b); // A merges B
    let ba = merged(b.clone(), &a); // B merges A

    // B merging A gives the union, as last-write-wins per key demands ...
    assert_eq!(ba.get(&1), Some(&ts_old));
    assert_eq!(ba.get(&2), Some(&ts_new));

    // ... but A merging B silently drops A's own live key 1, which was never deleted.
    assert_eq!(
        view(&ab),
        view(&ba),
        "A.merge(B) and B.merge(A) must expose the same live ids with the same timestamps"
    );
}

#[test]
fn replicas_that_merged_each_other_are_distinguishable() {
    let (a0, b0, _, _) = replicas(0, 1);

    // One anti-entropy exchange: each replica merges the state the other one had.
    let a1 = merged(a0.clone(), &b0);
    let b1 = merged(b0.clone(), &a0);

    assert_eq!(
        view(&a1),
        view(&b1),
        "after exchanging states both replicas must answer lookups identically"
    );
}

#[test]
fn grouping_matters_with_three_replicas() {
    let (a, b, _, _) = replicas(0, 1);
    // C only knows an unrelated key from another node.
    let mut c = OrSWotSet::<1>::default();
    assert!(c.insert(3, HLCTimestamp::new(T + Duration::from_secs(10), 0, 1)));

    // (C + B) + A
    let left = merged(merged(c.clone(), &b), &a);
    // C + (A + B)   -- same three states, other grouping / order
    let right = merged(c.clone(), &merged(a.clone(), &b));

    assert_eq!(view(&left), view(&right), "merge must be associative/commutative");
}
