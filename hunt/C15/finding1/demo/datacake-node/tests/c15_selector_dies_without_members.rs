//! C15 - "a selection ... fails with a not-enough-nodes error only when fewer than the
//! required number of other live nodes exist".
//!
//! When the selector actor holds no node at all (nothing installed yet: the window between
//! `connect()` returning and the membership watcher's first `set_nodes`), a `One`/`Two`/`Three`
//! selection does not *fail with a not-enough-nodes error*: `select_n_nodes` evaluates
//! `total_nodes - 1` for its warning with `total_nodes == 0`, the subtraction overflows, the
//! selector actor panics and is gone for the rest of the node's life - every later
//! `select_nodes` call (at any level, after any membership update) panics as well.
//!
//! Needs a tracing subscriber which enables WARN (every test of the repo and every real
//! deployment installs one) and overflow checks (the default of `cargo test` / debug builds).
use std::panic::AssertUnwindSafe;
use std::time::Duration;

use datacake_node::{
    ConnectionConfig,
    Consistency,
    ConsistencyError,
    DCAwareSelector,
    DatacakeNodeBuilder,
};
use futures::FutureExt;

fn panic_text(p: Box<dyn std::any::Any + Send>) -> String {
    p.downcast_ref::<String>()
        .cloned()
        .or_else(|| p.downcast_ref::<&str>().map(|s| s.to_string()))
        .unwrap_or_else(|| "<non string panic>".to_string())
}

/// Public API only, no cargo feature.
#[tokio::test]
async fn select_one_right_after_connect() {
    let _ = tracing_subscriber::fmt::try_init();

    let addr = test_helper::get_unused_addr();
    let cfg = ConnectionConfig::new(addr, addr, Vec::<String>::new());
    let node = DatacakeNodeBuilder::<DCAwareSelector>::new(1, cfg)
        .connect()
        .await
        .expect("connect");

    // A single node cluster: no other live node exists, the property demands
    // `Err(NotEnoughNodes)` here.
    let first = AssertUnwindSafe(node.select_nodes(Consistency::One))
        .catch_unwind()
        .await;

    // Let the membership watcher install the membership ({me}).
    tokio::time::sleep(Duration::from_millis(500)).await;

    // `None` requires nothing, must be `Ok([])` on every layout.
    let later = AssertUnwindSafe(node.select_nodes(Consistency::None))
        .catch_unwind()
        .await;

    let mut problems = Vec::new();
    match first {
        Ok(Err(ConsistencyError::NotEnoughNodes { .. })) => {},
        Ok(other) => problems.push(format!("One on a 1 node cluster returned {other:?}")),
        Err(p) => problems.push(format!(
            "One on a 1 node cluster: no NotEnoughNodes error, the call panicked: {}",
            panic_text(p)
        )),
    }
    match later {
        Ok(Ok(nodes)) if nodes.is_empty() => {},
        Ok(other) => problems.push(format!("None returned {other:?}")),
        Err(p) => problems.push(format!(
            "None (0.5s later, membership installed): the call panicked: {}",
            panic_text(p)
        )),
    }

    assert!(problems.is_empty(), "C15 violated:\n  {}", problems.join("\n  "));
}

/// The same through the `verif` hooks, without any network: the selector is dead for good,
/// a later membership update with plenty of live peers cannot be installed or used.
#[cfg(feature = "verif")]
#[tokio::test]
async fn selector_actor_never_recovers() {
    use std::borrow::Cow;
    use std::collections::BTreeMap;
    use std::net::SocketAddr;

    use datacake_node::verif::{set_nodes, start_node_selector};
    use datacake_node::Nodes;

    let _ = tracing_subscriber::fmt::try_init();

    let addr = |n: u8| SocketAddr::from(([127, 0, 0, n], 80));
    let local = addr(1);
    let handle = start_node_selector(local, Cow::Borrowed("dc-0"), DCAwareSelector).await;

    let first = AssertUnwindSafe(handle.get_nodes(Consistency::Two))
        .catch_unwind()
        .await;

    // Membership update: 4 live nodes in the local data centre (3 others).
    let mut layout = BTreeMap::new();
    layout.insert(
        Cow::Borrowed("dc-0"),
        Nodes::from_iter([local, addr(2), addr(3), addr(4)]),
    );
    let update = AssertUnwindSafe(set_nodes(&handle, layout)).catch_unwind().await;
    let after = AssertUnwindSafe(handle.get_nodes(Consistency::Two))
        .catch_unwind()
        .await;

    let mut problems = Vec::new();
    match first {
        Ok(Err(ConsistencyError::NotEnoughNodes { .. })) => {},
        Ok(other) => problems.push(format!("Two with no member returned {other:?}")),
        Err(p) => problems.push(format!(
            "Two with no member: no NotEnoughNodes error, the call panicked: {}",
            panic_text(p)
        )),
    }
    if let Err(p) = update {
        problems.push(format!("set_nodes(4 live nodes) panicked: {}", panic_text(p)));
    }
    match after {
        Ok(Ok(nodes)) if nodes.len() == 2 => {},
        Ok(other) => problems.push(format!("Two with 3 other live nodes returned {other:?}")),
        Err(p) => problems.push(format!(
            "Two with 3 other live nodes panicked: {}",
            panic_text(p)
        )),
    }

    assert!(problems.is_empty(), "C15 violated:\n  {}", problems.join("\n  "));
}
