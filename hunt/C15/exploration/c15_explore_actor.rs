#![cfg(feature = "verif")]
use std::borrow::Cow;
use std::collections::{BTreeMap, BTreeSet};
use std::net::{IpAddr, SocketAddr};

use datacake_node::verif::{set_nodes, start_node_selector};
use datacake_node::{Consistency, DCAwareSelector, Nodes};
use rand::Rng;

fn make_addr(dc: u8, n: u8) -> SocketAddr {
    SocketAddr::new(IpAddr::from([127, dc, 0, n]), 80)
}
const LEVELS: [Consistency; 8] = [
    Consistency::None, Consistency::One, Consistency::Two, Consistency::Three,
    Consistency::Quorum, Consistency::LocalQuorum, Consistency::All, Consistency::EachQuorum,
];

#[tokio::test]
async fn actor_random() {
    let mut rng = rand::thread_rng();
    let mut count = 0;
    for _ in 0..3000 {
        let local = make_addr(0, 0);
        let h = start_node_selector(local, Cow::Borrowed("dc-0"), DCAwareSelector).await;
        let mut others: BTreeSet<SocketAddr> = BTreeSet::new();
        let mut installed = false;
        for _ in 0..30 {
            if !installed || rng.gen_bool(0.3) {
                // random layout: each of 16 slots present with p, local always
                let mut layout: BTreeMap<Cow<'static, str>, Nodes> = BTreeMap::new();
                others.clear();
                let p = rng.gen_range(0.1..0.9);
                for d in 0..4u8 {
                    for i in 0..4u8 {
                        let a = make_addr(d, i);
                        if a == local || rng.gen_bool(p) {
                            layout.entry(Cow::Owned(format!("dc-{d}"))).or_default().push(a);
                            if a != local { others.insert(a); }
                        }
                    }
                }
                // shuffle order inside DCs
                for v in layout.values_mut() {
                    use rand::seq::SliceRandom;
                    v.shuffle(&mut rng);
                }
                set_nodes(&h, layout).await;
                installed = true;
            }
            let lvl = LEVELS[rng.gen_range(0..8)];
            let res = h.get_nodes(lvl).await;
            count += 1;
            match res {
                Ok(nodes) => {
                    let set: BTreeSet<_> = nodes.iter().copied().collect();
                    assert_eq!(set.len(), nodes.len(), "dups {lvl:?} {nodes:?}");
                    assert!(set.is_subset(&others), "stale/non member {lvl:?} {nodes:?} {others:?}");
                    match lvl {
                        Consistency::One => assert_eq!(nodes.len(), 1),
                        Consistency::Two => assert_eq!(nodes.len(), 2),
                        Consistency::Three => assert_eq!(nodes.len(), 3),
                        Consistency::All => assert_eq!(set, others),
                        Consistency::Quorum => assert!(nodes.len() >= (others.len() + 1) / 2),
                        _ => {},
                    }
                },
                Err(_) => {
                    let need = match lvl { Consistency::One => 1, Consistency::Two => 2, Consistency::Three => 3, _ => panic!("err at {lvl:?}") };
                    assert!(others.len() < need, "spurious {lvl:?} {others:?}");
                },
            }
        }
    }
    eprintln!("checked {count}");
}
