#![cfg(feature = "verif")]
use std::borrow::Cow;
use std::collections::{BTreeMap, BTreeSet};
use std::net::{IpAddr, SocketAddr};

use datacake_node::verif::NodeCycler;
use datacake_node::{Consistency, DCAwareSelector, NodeSelector, Nodes};

fn make_addr(dc: u8, n: u8) -> SocketAddr {
    SocketAddr::new(IpAddr::from([127, dc, 0, n]), 80)
}

const LEVELS: [Consistency; 8] = [
    Consistency::None,
    Consistency::One,
    Consistency::Two,
    Consistency::Three,
    Consistency::Quorum,
    Consistency::LocalQuorum,
    Consistency::All,
    Consistency::EachQuorum,
];

fn check(
    layout: &[usize],
    local: (usize, usize),
    level: Consistency,
    res: &Result<Nodes, datacake_node::ConsistencyError>,
    hist: &[Consistency],
) {
    let local_addr = make_addr(local.0 as u8, local.1 as u8);
    let mut others = BTreeSet::new();
    for (d, &k) in layout.iter().enumerate() {
        for i in 0..k {
            let a = make_addr(d as u8, i as u8);
            if a != local_addr {
                others.insert(a);
            }
        }
    }
    let total: usize = layout.iter().sum();
    let ctx = format!("layout={layout:?} local={local:?} level={level:?} hist={hist:?} res={res:?}");
    match res {
        Ok(nodes) => {
            let set: BTreeSet<_> = nodes.iter().copied().collect();
            assert_eq!(set.len(), nodes.len(), "dups {ctx}");
            assert!(set.is_subset(&others), "non member {ctx}");
            match level {
                Consistency::None => assert!(nodes.is_empty(), "{ctx}"),
                Consistency::One => assert_eq!(nodes.len(), 1, "{ctx}"),
                Consistency::Two => assert_eq!(nodes.len(), 2, "{ctx}"),
                Consistency::Three => assert_eq!(nodes.len(), 3, "{ctx}"),
                Consistency::Quorum => assert!(nodes.len() >= total / 2, "{ctx}"),
                Consistency::LocalQuorum => {
                    let l = layout[local.0];
                    let cnt = nodes
                        .iter()
                        .filter(|a| match a.ip() {
                            IpAddr::V4(v) => v.octets()[1] as usize == local.0,
                            _ => false,
                        })
                        .count();
                    assert!(cnt >= l / 2, "{ctx}");
                },
                Consistency::All => assert_eq!(set, others, "{ctx}"),
                Consistency::EachQuorum => {
                    for (d, &k) in layout.iter().enumerate() {
                        let cnt = nodes
                            .iter()
                            .filter(|a| match a.ip() {
                                IpAddr::V4(v) => v.octets()[1] as usize == d,
                                _ => false,
                            })
                            .count();
                        // with the local node counted in
                        let have = cnt + usize::from(d == local.0);
                        assert!(have >= k / 2 + 1, "{ctx}");
                    }
                },
            }
        },
        Err(_) => {
            let need = match level {
                Consistency::One => 1,
                Consistency::Two => 2,
                Consistency::Three => 3,
                _ => panic!("unexpected error {ctx}"),
            };
            assert!(others.len() < need, "spurious failure {ctx}");
        },
    }
}

fn build(layout: &[usize]) -> BTreeMap<Cow<'static, str>, NodeCycler> {
    let mut m = BTreeMap::new();
    for (d, &k) in layout.iter().enumerate() {
        let mut nodes = Nodes::new();
        for i in 0..k {
            nodes.push(make_addr(d as u8, i as u8));
        }
        m.insert(Cow::Owned(format!("dc-{d}")), NodeCycler::from(nodes));
    }
    m
}

#[test]
fn explore() {
    let mut count = 0u64;
    for ndc in 1..=4usize {
        let mut layout = vec![1usize; ndc];
        loop {
            // iterate
            let total: usize = layout.iter().sum();
            for ld in 0..ndc {
                for lp in 0..layout[ld] {
                    let local_addr = make_addr(ld as u8, lp as u8);
                    let local_dc = format!("dc-{ld}");
                    for a in 0..8 {
                        for b in 0..8 {
                            for c in 0..8 {
                                for d in 0..8 {
                                    if ndc == 4 && d != 0 {
                                        continue;
                                    }
                                    let seq = [LEVELS[a], LEVELS[b], LEVELS[c], LEVELS[d]];
                                    let mut dcs = build(&layout);
                                    let mut sel = DCAwareSelector;
                                    for (i, lvl) in seq.iter().enumerate() {
                                        let res = sel.select_nodes(
                                            local_addr, &local_dc, total, &mut dcs, *lvl,
                                        );
                                        check(&layout, (ld, lp), *lvl, &res, &seq[..i]);
                                        count += 1;
                                    }
                                }
                            }
                        }
                    }
                }
            }
            // next layout
            let mut i = 0;
            loop {
                if i == ndc {
                    break;
                }
                if layout[i] < 4 {
                    layout[i] += 1;
                    break;
                }
                layout[i] = 1;
                i += 1;
            }
            if i == ndc {
                break;
            }
        }
    }
    eprintln!("checked {count} selections");
}

#[test]
fn explore_long_random() {
    use rand::Rng;
    let mut rng = rand::thread_rng();
    let mut count = 0u64;
    for _ in 0..200_000 {
        let ndc = rng.gen_range(1..=4usize);
        let layout: Vec<usize> = (0..ndc).map(|_| rng.gen_range(1..=4usize)).collect();
        let total: usize = layout.iter().sum();
        let ld = rng.gen_range(0..ndc);
        let lp = rng.gen_range(0..layout[ld]);
        let local_addr = make_addr(ld as u8, lp as u8);
        let local_dc = format!("dc-{ld}");
        let mut dcs = build(&layout);
        let mut sel = DCAwareSelector;
        let mut hist = vec![];
        for _ in 0..25 {
            let lvl = LEVELS[rng.gen_range(0..8)];
            let res = sel.select_nodes(local_addr, &local_dc, total, &mut dcs, lvl);
            check(&layout, (ld, lp), lvl, &res, &hist);
            hist.push(lvl);
            count += 1;
        }
    }
    eprintln!("checked {count} selections");
}
