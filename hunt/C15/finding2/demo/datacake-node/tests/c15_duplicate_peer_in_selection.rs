//! C15 - "a successful selection contains only currently live members other than the local
//! node, WITHOUT DUPLICATES ...".
//!
//! The membership is keyed by node id, the selector works on addresses. While a peer which
//! crashed and came back under a new node id (same public address) is still carried by the
//! failure detector under its old id, the layout handed to the selector holds its address
//! twice, and `All` / `Quorum` / `EachQuorum` / `LocalQuorum` (which, unlike
//! `select_n_nodes`, never check `selected_nodes.contains`) return that address twice.
use std::collections::BTreeSet;
use std::time::Duration;

use datacake_node::{ConnectionConfig, Consistency, DCAwareSelector, DatacakeNodeBuilder};

/// Real nodes over loopback, public API only.
#[tokio::test(flavor = "multi_thread", worker_threads = 2)]
async fn peer_restarted_under_a_new_id_is_selected_twice() {
    let _ = tracing_subscriber::fmt::try_init();

    let addr_a = test_helper::get_unused_addr();
    let addr_x = test_helper::get_unused_addr();
    let addr_y = test_helper::get_unused_addr();

    let node_a = DatacakeNodeBuilder::<DCAwareSelector>::new(
        1,
        ConnectionConfig::new(addr_a, addr_a, Vec::<String>::new()),
    )
    .connect()
    .await
    .expect("connect a");

    let node_y = DatacakeNodeBuilder::<DCAwareSelector>::new(
        4,
        ConnectionConfig::new(addr_y, addr_y, [addr_a.to_string()]),
    )
    .connect()
    .await
    .expect("connect y");

    // Peer B (id 2, address X) lives on a runtime of its own so that it can "crash":
    // dropping the runtime kills all of its tasks and closes its sockets.
    let (ready_tx, ready_rx) = tokio::sync::oneshot::channel::<()>();
    let (crash_tx, crash_rx) = tokio::sync::oneshot::channel::<()>();
    let peer_b = std::thread::spawn(move || {
        let rt = tokio::runtime::Builder::new_multi_thread()
            .worker_threads(1)
            .enable_all()
            .build()
            .unwrap();
        rt.block_on(async move {
            let _node_b = DatacakeNodeBuilder::<DCAwareSelector>::new(
                2,
                ConnectionConfig::new(addr_x, addr_x, [addr_a.to_string()]),
            )
            .connect()
            .await
            .expect("connect b");
            let _ = ready_tx.send(());
            let _ = crash_rx.await;
        });
        rt.shutdown_timeout(Duration::from_secs(1));
    });
    ready_rx.await.unwrap();

    node_a
        .wait_for_nodes(&[2, 4], Duration::from_secs(30))
        .await
        .expect("b and y join");
    tokio::time::sleep(Duration::from_millis(500)).await;
    let before = node_a.select_nodes(Consistency::All).await.expect("all");
    assert_eq!(
        before.iter().copied().collect::<BTreeSet<_>>(),
        BTreeSet::from([addr_x, addr_y])
    );

    // B crashes and is brought back at once under a new node id on the same address.
    crash_tx.send(()).unwrap();
    peer_b.join().unwrap();
    let _node_b2 = DatacakeNodeBuilder::<DCAwareSelector>::new(
        3,
        ConnectionConfig::new(addr_x, addr_x, [addr_a.to_string()]),
    )
    .connect()
    .await
    .expect("connect b'");

    node_a
        .wait_for_nodes(&[3], Duration::from_secs(30))
        .await
        .expect("b' joins");
    // Let the membership watcher hand the new membership to the selector.
    tokio::time::sleep(Duration::from_millis(500)).await;

    let mut problems = Vec::new();
    for level in [
        Consistency::All,
        Consistency::Quorum,
        Consistency::EachQuorum,
        Consistency::LocalQuorum,
    ] {
        let nodes = node_a.select_nodes(level).await.expect("select");
        let distinct = nodes.iter().copied().collect::<BTreeSet<_>>();
        if distinct.len() != nodes.len() {
            problems.push(format!("{level:?} -> {nodes:?}"));
        }
    }
    let _ = node_y;

    assert!(
        problems.is_empty(),
        "C15 violated, selections with duplicates (x = {addr_x}, y = {addr_y}):\n  {}",
        problems.join("\n  ")
    );
}

/// The same without any network or timing, through the `verif` hooks: the real membership
/// watcher is fed the membership snapshot the scenario above produces.
#[cfg(feature = "verif")]
#[tokio::test]
async fn watcher_hands_the_selector_an_address_twice() {
    use std::borrow::Cow;
    use std::net::SocketAddr;

    use datacake_node::verif::{
        run_membership_watcher,
        start_node_selector,
        NodeMembership,
    };
    use datacake_node::ClusterMember;
    use tokio::sync::watch;
    use tokio_stream::wrappers::WatchStream;

    let addr = |n: u8| SocketAddr::from(([127, 0, 0, n], 80));
    let (me, x, y) = (addr(1), addr(2), addr(3));
    let dc = "dc-0".to_string();

    let mut members = NodeMembership::new();
    members.insert(1, ClusterMember::new(1, me, dc.clone()));
    members.insert(2, ClusterMember::new(2, x, dc.clone())); // old identity, not yet dead
    members.insert(3, ClusterMember::new(3, x, dc.clone())); // the restarted peer
    members.insert(4, ClusterMember::new(4, y, dc.clone()));

    let handle = start_node_selector(me, Cow::Borrowed("dc-0"), DCAwareSelector).await;
    let (members_tx, members_rx) = watch::channel(members);
    let (changes_tx, mut changes_rx) = watch::channel(NodeMembership::new());
    tokio::spawn(run_membership_watcher(
        1,
        handle.clone(),
        WatchStream::new(members_rx),
        changes_tx,
    ));
    changes_rx.changed().await.unwrap(); // the watcher has installed the membership
    let _keep = members_tx;

    let mut problems = Vec::new();
    for level in [
        Consistency::All,
        Consistency::Quorum,
        Consistency::EachQuorum,
        Consistency::LocalQuorum,
    ] {
        let nodes = handle.get_nodes(level).await.expect("select");
        let distinct = nodes.iter().copied().collect::<BTreeSet<_>>();
        if distinct.len() != nodes.len() {
            problems.push(format!(
                "{level:?} -> {nodes:?} ({} distinct, {y} is live and was left out: {})",
                distinct.len(),
                !distinct.contains(&y)
            ));
        }
    }

    assert!(
        problems.is_empty(),
        "C15 violated, selections with duplicates:\n  {}",
        problems.join("\n  ")
    );
}
