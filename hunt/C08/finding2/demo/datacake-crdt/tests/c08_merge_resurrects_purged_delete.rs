//! C08 demo: after a purge, `OrSWotSet::merge` accepts an operation of the deleting node that
//! is OLDER than the purged delete, although `insert`, `will_apply` and `diff` all refuse it.
//! The deleted document comes back on the purging replica, while a replica with the same
//! history that never purges keeps it deleted.
//!
//! Run with:
//!   cargo test --offline -p datacake-crdt --test c08_merge_resurrects_purged_delete
//!
//! (Integration tests link the normal build of the crate, so the forgiveness period is the
//! real one hour, not the zero used by the crate's own unit tests.)
use std::time::Duration;

use datacake_crdt::{HLCTimestamp, OrSWotSet};

const NODE_A: u8 = 1;

fn at(secs: u64, counter: u16) -> HLCTimestamp {
    // 100 hours after the datacake epoch, far away from any saturation.
    HLCTimestamp::new(Duration::from_secs(100 * 3600 + secs), counter, NODE_A)
}

#[test]
fn merge_lets_a_purged_delete_be_undone() {
    let t_insert = at(0, 0); // A: put doc 1
    let t_delete = at(1, 0); // A: del doc 1
    let t_later = at(2 * 3600, 0); // A: put doc 2, two hours later

    // The purging replica saw everything, in order.
    let mut replica = OrSWotSet::<1>::default();
    assert!(replica.insert(1, t_insert));
    assert!(replica.delete(1, t_delete));
    assert!(replica.insert(2, t_later));

    // A replica that keeps its tombstones (never purges), same history.
    let mut keeper = replica.clone();

    let purged = replica.purge_old_deletes();
    assert_eq!(purged, vec![(1, t_delete)], "the delete is old enough to be purged");
    assert!(replica.get(&1).is_none() && replica.get(&2).is_some(), "purge is invisible");

    // A stale peer which only ever received A's put of doc 1.
    let mut stale = OrSWotSet::<1>::default();
    assert!(stale.insert(1, t_insert));

    // Every operation-level entry point refuses A's old put, as the property demands ...
    assert!(!replica.will_apply(1, t_insert));
    assert_eq!(replica.diff(&stale), (vec![], vec![]), "diff: nothing to take from the peer");
    assert!(!replica.clone().insert(1, t_insert));

    // ... but merge, which `diff` documents as "the same logic", does not.
    keeper.merge(stale.clone());
    assert!(keeper.get(&1).is_none(), "without purging the delete stays a delete");

    replica.merge(stale);

    assert_eq!(
        replica.get(&1).copied(),
        None,
        "C08 violated: after purging the delete {t_delete} the replica accepted node A's older \
         put {t_insert} through merge(); doc 1 is live again, while the never-purging replica \
         keeps it deleted"
    );
}
