//! C08 demo: a replica that has purged a tombstone stops refusing the deleting node's
//! older operations as soon as it is restarted, so the deleted document comes back.
//!
//! Run with:
//!   cargo test --offline -p datacake-eventual-consistency --features "verif test-utils" \
//!       --test c08_restart_forgets_purged_deletes
//!
//! The "restart" below is exactly what `EventuallyConsistentStore::create` does when a node
//! boots: `KeyspaceGroup::new(storage, clock)` followed by `load_states_from_storage()`.
use std::marker::PhantomData;
use std::sync::Arc;
use std::time::Duration;

use datacake_crdt::{get_datacake_timestamp, HLCTimestamp};
use datacake_eventual_consistency::test_utils::MemStore;
use datacake_eventual_consistency::verif::{
    Del,
    KeyspaceGroup,
    PurgeDeletes,
    Set,
    CONSISTENCY_SOURCE_ID,
    READ_REPAIR_SOURCE_ID,
};
use datacake_eventual_consistency::{Document, DocumentMetadata, Storage};
use datacake_node::Clock;

const KS: &str = "ks";
/// The node whose operations we replay (the "deleting node").
const NODE_A: u8 = 1;
/// The replica under test.
const REPLICA: u8 = 9;

fn set(source: usize, id: u64, ts: HLCTimestamp) -> Set<MemStore> {
    Set {
        source,
        doc: Document::new(id, ts, b"payload".to_vec()),
        ctx: None,
        _marker: PhantomData,
    }
}

fn del(source: usize, id: u64, ts: HLCTimestamp) -> Del<MemStore> {
    Del {
        source,
        doc: DocumentMetadata::new(id, ts),
        _marker: PhantomData,
    }
}

async fn live_ids(storage: &MemStore) -> Vec<u64> {
    let mut ids = storage
        .iter_metadata(KS)
        .await
        .unwrap()
        .filter(|(_, _, tombstone)| !tombstone)
        .map(|(id, _, _)| id)
        .collect::<Vec<_>>();
    ids.sort();
    ids
}

async fn tombstone_ids(storage: &MemStore) -> Vec<u64> {
    let mut ids = storage
        .iter_metadata(KS)
        .await
        .unwrap()
        .filter(|(_, _, tombstone)| *tombstone)
        .map(|(id, _, _)| id)
        .collect::<Vec<_>>();
    ids.sort();
    ids
}

#[tokio::test]
async fn purged_delete_is_forgotten_by_a_restart() {
    // Node A's history, three hours long, ending "now".
    let base = get_datacake_timestamp() - Duration::from_secs(3 * 3600);
    let t_insert = HLCTimestamp::new(base, 0, NODE_A); // A: put doc 1
    let t_delete = HLCTimestamp::new(base + Duration::from_secs(1), 0, NODE_A); // A: del doc 1
    let t_later_0 = HLCTimestamp::new(base + Duration::from_secs(2 * 3600), 0, NODE_A); // A: put doc 2
    let t_later_1 = HLCTimestamp::new(base + Duration::from_secs(2 * 3600), 1, NODE_A); // A: put doc 3

    let storage = Arc::new(MemStore::default());

    // ---------------------------------------------------------------- first life
    {
        let group = KeyspaceGroup::new(storage.clone(), Clock::new(REPLICA)).await;
        let ks = group.get_or_create_keyspace(KS).await;

        ks.send(set(CONSISTENCY_SOURCE_ID, 1, t_insert)).await.unwrap();
        ks.send(del(CONSISTENCY_SOURCE_ID, 1, t_delete)).await.unwrap();
        assert_eq!(live_ids(&storage).await, Vec::<u64>::new());
        assert_eq!(tombstone_ids(&storage).await, vec![1]);

        // Two hours later the replica has seen newer operations of A on both of its sources,
        // so the delete of doc 1 is more than the forgiveness period behind: it may be purged.
        ks.send(set(CONSISTENCY_SOURCE_ID, 2, t_later_0)).await.unwrap();
        ks.send(set(READ_REPAIR_SOURCE_ID, 3, t_later_1)).await.unwrap();

        let live_before = live_ids(&storage).await;
        ks.send(PurgeDeletes(PhantomData)).await.unwrap();
        assert_eq!(live_ids(&storage).await, live_before, "purge is invisible");
        assert_eq!(
            tombstone_ids(&storage).await,
            Vec::<u64>::new(),
            "the tombstone of doc 1 was purged (memory and storage)"
        );

        // Property, local half: the purged delete still wins against A's older put of doc 1
        // (a late duplicate, a stale peer handing it over during read repair, ...).
        ks.send(set(CONSISTENCY_SOURCE_ID, 1, t_insert)).await.unwrap();
        ks.send(set(READ_REPAIR_SOURCE_ID, 1, t_insert)).await.unwrap();
        assert_eq!(
            live_ids(&storage).await,
            vec![2, 3],
            "before the restart the stale put is refused, as the property demands"
        );
    }

    // ---------------------------------------------------------------- restart
    // Same storage, fresh process: this is what `EventuallyConsistentStore::create` runs.
    let group = KeyspaceGroup::new(storage.clone(), Clock::new(REPLICA)).await;
    group.load_states_from_storage().await.unwrap();
    let ks = group.get_or_create_keyspace(KS).await;
    assert_eq!(live_ids(&storage).await, vec![2, 3]);

    // The very same stale operation of the deleting node arrives again.
    ks.send(set(READ_REPAIR_SOURCE_ID, 1, t_insert)).await.unwrap();

    assert_eq!(
        live_ids(&storage).await,
        vec![2, 3],
        "C08 violated: after a restart the replica accepted an operation of the deleting node \
         that is OLDER than the delete it purged (put {t_insert} < purged delete {t_delete}); \
         the deleted document 1 is live again"
    );
}
