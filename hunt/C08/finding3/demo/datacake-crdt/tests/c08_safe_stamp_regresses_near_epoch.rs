//! C08 demo: in the first hour after the datacake epoch the safe cut-off is not monotonic
//! (`saturating_sub` clamps the time to zero but keeps the counter of the newest stamp), so
//!   (a) a tombstone is purged long before the forgiveness period has passed, and
//!   (b) the cut-off later moves BACKWARDS and the replica accepts an operation of the deleting
//!       node that is older than the delete it purged, in a history where every operation is
//!       delivered within 41 minutes of its timestamp.
//!
//! Run with:
//!   cargo test --offline -p datacake-crdt --test c08_safe_stamp_regresses_near_epoch
use std::time::Duration;

use datacake_crdt::{HLCTimestamp, OrSWotSet};

const NODE_A: u8 = 1;
const MIN: u64 = 60;

fn a(secs: u64, counter: u16) -> HLCTimestamp {
    HLCTimestamp::new(Duration::from_secs(secs), counter, NODE_A)
}

/// Applies node A's history to one replica in the given delivery order.
/// All of A's stamps are what `HLCTimestamp::send` produces for a wall clock that reads
/// 0 ms, then 30 min, then 40 min (several events inside one 4 ms tick bump the counter).
fn deliver(purge: bool) -> OrSWotSet<1> {
    let put_doc1 = a(0, 1); //          A @ 0 min : put doc 1
    let del_doc1 = a(0, 3); //          A @ 0 min : del doc 1
    let put_doc2 = a(30 * MIN, 5); //   A @ 30 min: put doc 2 (6th event of that tick)
    let put_doc3 = a(40 * MIN, 0); //   A @ 40 min: put doc 3

    let mut set = OrSWotSet::<1>::default();

    // minute 1: the delete overtakes the put it deletes.
    set.delete(1, del_doc1);
    // minute 30
    set.insert(2, put_doc2);
    if purge {
        let purged = set.purge_old_deletes();
        // (a) purged after 30 minutes although the forgiveness period is one hour.
        assert_eq!(purged, vec![(1, del_doc1)]);
    }
    // minute 40
    set.insert(3, put_doc3);
    // minute 41: A's put of doc 1 finally arrives, 41 minutes after its timestamp (< 1 hour).
    set.insert(1, put_doc1);

    set
}

#[test]
fn purged_delete_is_undone_inside_the_forgiveness_window() {
    let never_purges = deliver(false);
    let purges = deliver(true);

    assert!(
        never_purges.get(&1).is_none(),
        "reference: the replica that keeps its tombstones keeps doc 1 deleted"
    );
    assert!(
        purges.get(&1).is_none(),
        "C08 violated: same timely history, one purge call: doc 1 (deleted by node A at {}) is \
         live again with A's OLDER stamp {}",
        a(0, 3),
        purges.get(&1).unwrap(),
    );
}
