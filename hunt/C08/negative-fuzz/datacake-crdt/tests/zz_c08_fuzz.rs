use std::collections::{BTreeMap, BTreeSet};
use std::time::Duration;

use datacake_crdt::{HLCTimestamp, OrSWotSet};

struct Rng(u64);
impl Rng {
    fn next(&mut self) -> u64 {
        let mut x = self.0;
        x ^= x << 13;
        x ^= x >> 7;
        x ^= x << 17;
        self.0 = x;
        x
    }
    fn below(&mut self, n: u64) -> u64 {
        self.next() % n
    }
}

#[derive(Clone, Copy, Debug)]
struct Op {
    key: u64,
    ts: HLCTimestamp,
    del: bool,
}

#[derive(Clone, Debug)]
enum Ev {
    Deliver { replica: usize, source: usize, op: Op },
    Purge { replica: usize },
}

const H: u64 = 3_600_000;
static PURGED: std::sync::atomic::AtomicUsize = std::sync::atomic::AtomicUsize::new(0);

fn run(seed: u64, base: u64, verbose: bool) -> Option<String> {
    let mut rng = Rng(seed.wrapping_mul(0x9E3779B97F4A7C15) | 1);
    let n = 3usize;
    let max_skew = rng.below(H / 2);
    let max_delay = H - max_skew - 20;
    let skews: Vec<u64> = (0..n).map(|_| rng.below(max_skew + 1)).collect();
    let horizon = 6 * H;
    let nops = 12 + rng.below(20);
    let nkeys = 1 + rng.below(4);

    let mut creations: Vec<(u64, usize)> = (0..nops)
        .map(|_| {
            let t = if rng.below(3) == 0 {
                rng.below(6) * H + rng.below(3) * 4
            } else {
                rng.below(horizon)
            };
            (base + t, rng.below(n as u64) as usize)
        })
        .collect();
    creations.sort();

    let mut clocks: Vec<(u64, u16)> = vec![(0, 0); n];
    let mut timeline: BTreeMap<(u64, u64), Ev> = BTreeMap::new();
    let mut seq = 0u64;
    let mut all_ops: Vec<Op> = vec![];

    let npurges = rng.below(30);
    for _ in 0..npurges {
        let t = base + rng.below(horizon + 2 * H);
        seq += 1;
        timeline.insert(
            (t, seq),
            Ev::Purge {
                replica: rng.below(n as u64) as usize,
            },
        );
    }

    for (real, node) in creations {
        let wall = (real + skews[node]) / 4 * 4;
        let c = &mut clocks[node];
        if wall > c.0 {
            *c = (wall, 0);
        } else {
            c.1 += 1;
        }
        let ts = HLCTimestamp::new(Duration::from_millis(c.0), c.1, node as u8);
        let op = Op {
            key: rng.below(nkeys),
            ts,
            del: rng.below(2) == 0,
        };
        all_ops.push(op);
        for r in 0..n {
            let at = if r == node {
                real
            } else {
                real + rng.below(max_delay)
            };
            let source = if r == node { 0 } else { rng.below(2) as usize };
            seq += 1;
            timeline.insert(
                (at, seq),
                Ev::Deliver {
                    replica: r,
                    source,
                    op,
                },
            );
            if rng.below(2) == 0 {
                let at2 = real + rng.below(max_delay);
                seq += 1;
                timeline.insert(
                    (at2.max(at), seq),
                    Ev::Deliver {
                        replica: r,
                        source: rng.below(2) as usize,
                        op,
                    },
                );
            }
        }
    }

    let mut p: Vec<OrSWotSet<2>> = (0..n).map(|_| OrSWotSet::default()).collect();
    let mut np: Vec<OrSWotSet<2>> = (0..n).map(|_| OrSWotSet::default()).collect();

    let mut log = vec![];
    for ((t, _), ev) in timeline.iter() {
        match ev {
            Ev::Deliver {
                replica,
                source,
                op,
            } => {
                for sets in [&mut p, &mut np] {
                    if op.del {
                        sets[*replica].delete_with_source(*source, op.key, op.ts);
                    } else {
                        sets[*replica].insert_with_source(*source, op.key, op.ts);
                    }
                }
                log.push(format!(
                    "t={} deliver r{} s{} {:?} ts={}",
                    t - base,
                    replica,
                    source,
                    op,
                    op.ts
                ));
            },
            Ev::Purge { replica } => {
                let before: Vec<_> =
                    (0..nkeys).map(|k| p[*replica].get(&k).copied()).collect();
                let purged = p[*replica].purge_old_deletes();
                PURGED.fetch_add(purged.len(), std::sync::atomic::Ordering::Relaxed);
                let after: Vec<_> =
                    (0..nkeys).map(|k| p[*replica].get(&k).copied()).collect();
                if before != after {
                    return Some(format!("purge changed live set seed={seed}"));
                }
                log.push(format!("t={} purge r{} -> {:?}", t - base, replica, purged));
            },
        }
    }

    let mut ideal: BTreeMap<u64, Op> = BTreeMap::new();
    for op in &all_ops {
        let e = ideal.entry(op.key).or_insert(*op);
        if op.ts > e.ts {
            *e = *op;
        }
    }
    let ideal_live: BTreeSet<u64> = ideal
        .values()
        .filter(|o| !o.del)
        .map(|o| o.key)
        .collect();

    for r in 0..n {
        let live_p: BTreeSet<u64> =
            (0..nkeys).filter(|k| p[r].get(k).is_some()).collect();
        let live_np: BTreeSet<u64> =
            (0..nkeys).filter(|k| np[r].get(k).is_some()).collect();
        if live_p != live_np || live_p != ideal_live {
            if verbose {
                for l in &log {
                    println!("{l}");
                }
            }
            return Some(format!(
                "seed={seed} r{r}: purge={live_p:?} nopurge={live_np:?} ideal={ideal_live:?} skews={skews:?} max_delay={max_delay}"
            ));
        }
    }
    None
}

fn campaign(base: u64) {
    let mut fails = 0;
    for seed in 1..20000u64 {
        if let Some(msg) = run(seed, base, false) {
            println!("{msg}");
            fails += 1;
            if fails == 1 {
                run(seed, base, true);
            }
            if fails > 5 {
                break;
            }
        }
    }
    println!("purged total {}", PURGED.load(std::sync::atomic::Ordering::Relaxed));
    assert_eq!(fails, 0);
}

#[test]
fn fuzz_far_from_epoch() {
    campaign(100 * H);
}

#[test]
fn fuzz_near_epoch() {
    campaign(0);
}
