use std::collections::{BTreeMap, BTreeSet};
use std::time::Duration;

use datacake_crdt::{HLCTimestamp, OrSWotSet};

struct Rng(u64);
impl Rng {
    fn next(&mut self) -> u64 {
        let mut x = self.0;
        x ^= x << 13;
        x ^= x >> 7;
        x ^= x << 17;
        self.0 = x;
        x
    }
    fn below(&mut self, n: u64) -> u64 {
        self.next() % n
    }
}

#[derive(Clone, Copy, Debug)]
struct Op {
    key: u64,
    ts: HLCTimestamp,
    del: bool,
}

#[derive(Clone, Debug)]
enum Ev {
    Create { node: usize },
    Merge { into: usize, from: usize },
    Purge { replica: usize },
}

const M: u64 = 60_000;
const H: u64 = 60 * M;

fn run(seed: u64, base: u64, verbose: bool) -> Option<String> {
    let mut rng = Rng(seed.wrapping_mul(0x9E3779B97F4A7C15) | 1);
    let n = 3usize;
    let max_skew = rng.below(30 * M);
    let skews: Vec<u64> = (0..n).map(|_| rng.below(max_skew + 1)).collect();
    let horizon = 6 * H;
    let nops = 12 + rng.below(20);
    let nkeys = 1 + rng.below(4);

    let mut timeline: BTreeMap<(u64, u64), Ev> = BTreeMap::new();
    let mut seq = 0u64;
    for _ in 0..nops {
        let t = if rng.below(3) == 0 {
            rng.below(6) * H + rng.below(3) * 4
        } else {
            rng.below(horizon)
        };
        seq += 1;
        timeline.insert(
            (base + t, seq),
            Ev::Create {
                node: rng.below(n as u64) as usize,
            },
        );
    }
    let npurges = rng.below(40);
    for _ in 0..npurges {
        let t = base + rng.below(horizon + 2 * H);
        seq += 1;
        timeline.insert(
            (t, seq),
            Ev::Purge {
                replica: rng.below(n as u64) as usize,
            },
        );
    }
    // gossip rounds every 10 minutes: all ordered pairs, twice, random order inside a minute.
    let mut t = 0;
    while t < horizon + 3 * H {
        for _rep in 0..2 {
            for i in 0..n {
                for j in 0..n {
                    if i != j {
                        seq += 1;
                        timeline.insert(
                            (base + t + rng.below(M), seq),
                            Ev::Merge { into: i, from: j },
                        );
                    }
                }
            }
        }
        t += 10 * M;
    }

    let mut clocks: Vec<(u64, u16)> = vec![(0, 0); n];
    let mut all_ops: Vec<Op> = vec![];
    let mut p: Vec<OrSWotSet<1>> = (0..n).map(|_| OrSWotSet::default()).collect();
    let mut np: Vec<OrSWotSet<1>> = (0..n).map(|_| OrSWotSet::default()).collect();
    let mut log = vec![];

    for ((real, _), ev) in timeline.iter() {
        match ev {
            Ev::Create { node } => {
                let wall = (real + skews[*node]) / 4 * 4;
                let c = &mut clocks[*node];
                if wall > c.0 {
                    *c = (wall, 0);
                } else {
                    c.1 += 1;
                }
                let ts = HLCTimestamp::new(Duration::from_millis(c.0), c.1, *node as u8);
                let op = Op {
                    key: rng.below(nkeys),
                    ts,
                    del: rng.below(2) == 0,
                };
                all_ops.push(op);
                for sets in [&mut p, &mut np] {
                    if op.del {
                        sets[*node].delete(op.key, op.ts);
                    } else {
                        sets[*node].insert(op.key, op.ts);
                    }
                }
                log.push(format!("t={} create n{} {:?} ts={}", real - base, node, op, op.ts));
            },
            Ev::Merge { into, from } => {
                for sets in [&mut p, &mut np] {
                    let other = sets[*from].clone();
                    sets[*into].merge(other);
                }
                log.push(format!("t={} merge r{} <- r{}", real - base, into, from));
            },
            Ev::Purge { replica } => {
                let before: Vec<_> =
                    (0..nkeys).map(|k| p[*replica].get(&k).copied()).collect();
                let purged = p[*replica].purge_old_deletes();
                let after: Vec<_> =
                    (0..nkeys).map(|k| p[*replica].get(&k).copied()).collect();
                if before != after {
                    return Some(format!("purge changed live set seed={seed}"));
                }
                if !purged.is_empty() {
                    log.push(format!("t={} purge r{} -> {:?}", real - base, replica, purged));
                }
            },
        }
    }

    let mut ideal: BTreeMap<u64, Op> = BTreeMap::new();
    for op in &all_ops {
        let e = ideal.entry(op.key).or_insert(*op);
        if op.ts > e.ts {
            *e = *op;
        }
    }
    let ideal_live: BTreeSet<u64> = ideal
        .values()
        .filter(|o| !o.del)
        .map(|o| o.key)
        .collect();

    for r in 0..n {
        let live_p: BTreeSet<u64> =
            (0..nkeys).filter(|k| p[r].get(k).is_some()).collect();
        let live_np: BTreeSet<u64> =
            (0..nkeys).filter(|k| np[r].get(k).is_some()).collect();
        if live_p != live_np || live_p != ideal_live {
            if verbose {
                for l in &log {
                    println!("{l}");
                }
            }
            return Some(format!(
                "seed={seed} r{r}: purge={live_p:?} nopurge={live_np:?} ideal={ideal_live:?} skews={skews:?}"
            ));
        }
    }
    None
}

fn campaign(base: u64) {
    let mut fails = 0;
    for seed in 1..3000u64 {
        if let Some(msg) = run(seed, base, false) {
            println!("{msg}");
            fails += 1;
            if fails == 1 {
                run(seed, base, true);
            }
            if fails > 5 {
                break;
            }
        }
    }
    assert_eq!(fails, 0);
}

#[test]
fn mergefuzz_far_from_epoch() {
    campaign(100 * H);
}
