//! C12 demo: a message (or a reply) whose frame is larger than 2 GiB is not
//! delivered, and the caller is not told so by an error `Status` that
//! describes the problem either. Depending on the types inside the message,
//!
//!  * `RpcClient::send` panics                                (Box<str>, Vec<_>, ...)
//!  * `RpcClient::send` never returns                         (String)
//!  * the handler's `Ok(reply)` becomes `InvalidPayload`      (String reply)
//!  * the handler's `Ok(reply)` becomes a `ConnectionError`   (Box<str>, Vec<_> reply)
//!  * `to_view_bytes` + `DataView::using` hand out a view of another value,
//!    without any error                                       (String, no network)
//!
//! Needs roughly 8 GiB of memory; run with `--test-threads=1`.

use std::sync::atomic::{AtomicUsize, Ordering};
use std::sync::Arc;
use std::time::Duration;

use datacake_rpc::{
    Channel,
    DataView,
    ErrorCode,
    Handler,
    Request,
    RpcClient,
    RpcService,
    Server,
    ServiceRegistry,
    Status,
};
use rkyv::{Archive, Deserialize, Serialize};

/// Just over `i32::MAX` bytes.
const BIG: usize = (1usize << 31) + 8;

#[repr(C)]
#[derive(Serialize, Deserialize, Archive, PartialEq, Debug, Clone)]
#[archive(check_bytes)]
pub struct UploadString {
    blob: String,
}

#[repr(C)]
#[derive(Serialize, Deserialize, Archive, PartialEq, Debug, Clone)]
#[archive(check_bytes)]
pub struct UploadBoxed {
    blob: Box<str>,
}

#[repr(C)]
#[derive(Serialize, Deserialize, Archive, PartialEq, Debug, Clone)]
#[archive(check_bytes)]
pub struct DownloadString {
    len: u64,
}

#[repr(C)]
#[derive(Serialize, Deserialize, Archive, PartialEq, Debug, Clone)]
#[archive(check_bytes)]
pub struct DownloadBoxed {
    len: u64,
}

#[derive(Default)]
pub struct BlobService {
    uploads_seen: Arc<AtomicUsize>,
}

impl RpcService for BlobService {
    fn register_handlers(registry: &mut ServiceRegistry<Self>) {
        registry.add_handler::<UploadString>();
        registry.add_handler::<UploadBoxed>();
        registry.add_handler::<DownloadString>();
        registry.add_handler::<DownloadBoxed>();
    }
}

#[datacake_rpc::async_trait]
impl Handler<UploadString> for BlobService {
    type Reply = u64;

    async fn on_message(
        &self,
        msg: Request<UploadString>,
    ) -> Result<Self::Reply, Status> {
        self.uploads_seen.fetch_add(1, Ordering::SeqCst);
        Ok(msg.blob.len() as u64)
    }
}

#[datacake_rpc::async_trait]
impl Handler<UploadBoxed> for BlobService {
    type Reply = u64;

    async fn on_message(
        &self,
        msg: Request<UploadBoxed>,
    ) -> Result<Self::Reply, Status> {
        self.uploads_seen.fetch_add(1, Ordering::SeqCst);
        Ok(msg.blob.len() as u64)
    }
}

#[datacake_rpc::async_trait]
impl Handler<DownloadString> for BlobService {
    type Reply = String;

    async fn on_message(
        &self,
        msg: Request<DownloadString>,
    ) -> Result<Self::Reply, Status> {
        Ok("x".repeat(msg.len as usize))
    }
}

#[datacake_rpc::async_trait]
impl Handler<DownloadBoxed> for BlobService {
    type Reply = Box<str>;

    async fn on_message(
        &self,
        msg: Request<DownloadBoxed>,
    ) -> Result<Self::Reply, Status> {
        Ok("x".repeat(msg.len as usize).into_boxed_str())
    }
}

async fn start() -> (Server, RpcClient<BlobService>, Arc<AtomicUsize>) {
    let addr = test_helper::get_unused_addr();
    let server = Server::listen(addr).await.unwrap();
    let service = BlobService::default();
    let uploads_seen = service.uploads_seen.clone();
    server.add_service(service);
    let client = RpcClient::<BlobService>::new(Channel::connect(addr));
    (server, client, uploads_seen)
}

/// The only acceptable ways for the system to decline a reply/message it
/// cannot frame: a status that says so (body.rs maps a serialisation error to
/// `Status::internal`, the receiving side has `Status::invalid` for frames it
/// refuses - but here nothing was damaged, so only the former applies).
fn is_an_honest_refusal(status: &Status) -> bool {
    status.code == ErrorCode::InternalError
}

/// client -> handler, message holding a `Box<str>`.
#[tokio::test(flavor = "multi_thread", worker_threads = 2)]
async fn big_boxed_message_is_delivered_or_refused_with_a_status() {
    let (server, client, uploads_seen) = start().await;

    // Sanity.
    let small = UploadBoxed {
        blob: "x".repeat(1 << 20).into_boxed_str(),
    };
    assert_eq!(client.send(&small).await.unwrap(), 1u64 << 20);

    let big = UploadBoxed {
        blob: "x".repeat(BIG).into_boxed_str(),
    };
    let call = tokio::spawn(async move { client.send(&big).await.map(|len| *len) });
    let outcome = call.await;
    server.shutdown();
    println!("handler ran {} time(s)", uploads_seen.load(Ordering::SeqCst) - 1);

    match outcome {
        Ok(Ok(len)) => assert_eq!(len, BIG as u64, "the handler saw another value"),
        Ok(Err(status)) => assert!(is_an_honest_refusal(&status), "{status:?}"),
        Err(join_error) => panic!(
            "RpcClient::send neither delivered the message nor returned a Status: {join_error}"
        ),
    }
}

/// client -> handler, message holding a `String`.
#[tokio::test(flavor = "multi_thread", worker_threads = 2)]
async fn big_string_message_is_delivered_or_refused_with_a_status() {
    let (server, mut client, uploads_seen) = start().await;

    // Without this the call below simply never returns.
    client.set_timeout(Duration::from_secs(60));

    // Sanity.
    let small = UploadString {
        blob: "x".repeat(1 << 20),
    };
    assert_eq!(client.send(&small).await.unwrap(), 1u64 << 20);

    let big = UploadString {
        blob: "x".repeat(BIG),
    };
    let outcome = client.send(&big).await.map(|len| *len);
    server.shutdown();
    println!("handler ran {} time(s)", uploads_seen.load(Ordering::SeqCst) - 1);

    match outcome {
        Ok(len) => assert_eq!(len, BIG as u64, "the handler saw another value"),
        Err(status) => assert!(
            is_an_honest_refusal(&status),
            "the message was neither delivered nor refused, the call just hung: {status:?}"
        ),
    }
}

/// handler -> client, reply is a `String`.
#[tokio::test(flavor = "multi_thread", worker_threads = 2)]
async fn big_string_reply_is_delivered_or_reported_as_not_deliverable() {
    let (server, client, _) = start().await;

    // Sanity.
    let reply = client
        .send(&DownloadString { len: 1 << 20 })
        .await
        .unwrap();
    assert_eq!(reply.len(), 1 << 20);

    let outcome = client.send(&DownloadString { len: BIG as u64 }).await;
    server.shutdown();

    match outcome {
        Ok(reply) => assert_eq!(reply.len(), BIG, "the client saw another value"),
        Err(status) => assert!(
            is_an_honest_refusal(&status),
            "the handler returned Ok(..), the client observes: {status:?}"
        ),
    }
}

/// handler -> client, reply is a `Box<str>`.
#[tokio::test(flavor = "multi_thread", worker_threads = 2)]
async fn big_boxed_reply_is_delivered_or_reported_as_not_deliverable() {
    let (server, client, _) = start().await;

    // Sanity.
    let reply = client.send(&DownloadBoxed { len: 1 << 20 }).await.unwrap();
    assert_eq!(reply.len(), 1 << 20);

    let outcome = client.send(&DownloadBoxed { len: BIG as u64 }).await;
    server.shutdown();

    match outcome {
        Ok(reply) => assert_eq!(reply.len(), BIG, "the client saw another value"),
        Err(status) => assert!(
            is_an_honest_refusal(&status),
            "the handler returned Ok(..), the client observes: {status:?}"
        ),
    }
}

/// No network. The frame `to_view_bytes` builds for a big `String` has a
/// matching checksum and is long enough, so `DataView::using` accepts it - but
/// it does not hold the value: a length with bit 31 set is read back as the
/// tag of an *inline* (at most 8 byte) string.
#[test]
fn frame_of_a_big_string_holds_the_string() {
    let value = UploadString {
        blob: "x".repeat(BIG),
    };
    let frame = datacake_rpc::to_view_bytes(&value).expect("no error is reported");
    drop(value);

    let view = DataView::<UploadString>::using(frame)
        .expect("checksum and length are fine, the frame is accepted");

    println!(
        "frame of {} bytes, archived blob has {} bytes: {:?}",
        view.as_bytes().len(),
        view.blob.len(),
        view.blob.as_bytes(),
    );
    assert_eq!(view.blob.len(), BIG, "the view does not hold the value sent");
}
