//! C12 demo: a message value with a `usize` / `isize` field that does not fit
//! in 32 bits (or a collection of more than `u32::MAX` zero sized elements)
//! does not reach the handler: the handler observes the value modulo 2^32,
//! inside a frame whose checksum is perfectly valid, and nobody gets an error.
//! The same happens to the handler's reply on its way back.

use std::sync::{Arc, Mutex};

use datacake_rpc::{
    Channel,
    Handler,
    Request,
    RpcClient,
    RpcService,
    Server,
    ServiceRegistry,
    Status,
};
use rkyv::{Archive, Deserialize, Serialize};

#[repr(C)]
#[derive(Serialize, Deserialize, Archive, PartialEq, Debug, Clone)]
#[archive(check_bytes)]
pub struct ReadAt {
    file: String,
    /// A byte offset in a file, as one would naturally type it in Rust.
    offset: usize,
    /// A relative seek.
    delta: isize,
}

#[repr(C)]
#[derive(Serialize, Deserialize, Archive, PartialEq, Debug, Clone)]
#[archive(check_bytes)]
pub struct FileLen {
    file: String,
}

#[repr(C)]
#[derive(Serialize, Deserialize, Archive, PartialEq, Debug, Clone)]
#[archive(check_bytes)]
pub struct Acks {
    /// One unit per acknowledged item.
    acks: Vec<()>,
}

#[derive(Default)]
pub struct FileService {
    seen: Arc<Mutex<Vec<ReadAt>>>,
    seen_acks: Arc<Mutex<Vec<usize>>>,
}

/// What the `FileLen` handler replies (a file of a bit more than 4 GiB).
const FILE_LEN: usize = (1 << 32) + 4096;

impl RpcService for FileService {
    fn register_handlers(registry: &mut ServiceRegistry<Self>) {
        registry.add_handler::<ReadAt>();
        registry.add_handler::<FileLen>();
        registry.add_handler::<Acks>();
    }
}

#[datacake_rpc::async_trait]
impl Handler<ReadAt> for FileService {
    type Reply = ();

    async fn on_message(&self, msg: Request<ReadAt>) -> Result<Self::Reply, Status> {
        let owned: ReadAt = msg.deserialize_view().map_err(Status::internal)?;
        self.seen.lock().unwrap().push(owned);
        Ok(())
    }
}

#[datacake_rpc::async_trait]
impl Handler<FileLen> for FileService {
    type Reply = usize;

    async fn on_message(&self, _msg: Request<FileLen>) -> Result<Self::Reply, Status> {
        Ok(FILE_LEN)
    }
}

#[datacake_rpc::async_trait]
impl Handler<Acks> for FileService {
    type Reply = ();

    async fn on_message(&self, msg: Request<Acks>) -> Result<Self::Reply, Status> {
        self.seen_acks.lock().unwrap().push(msg.acks.len());
        Ok(())
    }
}

async fn start() -> (Server, RpcClient<FileService>, Arc<Mutex<Vec<ReadAt>>>, Arc<Mutex<Vec<usize>>>)
{
    let addr = test_helper::get_unused_addr();
    let server = Server::listen(addr).await.unwrap();
    let service = FileService::default();
    let seen = service.seen.clone();
    let seen_acks = service.seen_acks.clone();
    server.add_service(service);
    let client = RpcClient::<FileService>::new(Channel::connect(addr));
    (server, client, seen, seen_acks)
}

/// client -> handler: "the handler observes a value equal to the one the client sent".
#[tokio::test]
async fn handler_observes_the_usize_the_client_sent() {
    let (server, client, seen, _) = start().await;

    // Sanity: small values are delivered exactly.
    let small = ReadAt {
        file: "a.bin".into(),
        offset: 4096,
        delta: -7,
    };
    client.send(&small).await.expect("the call succeeds");
    assert_eq!(seen.lock().unwrap().pop().unwrap(), small);

    // The first offset after the 4 GiB mark, and a seek of a bit more than 2 GiB backwards.
    let sent = ReadAt {
        file: "a.bin".into(),
        offset: (1usize << 32) + 5,
        delta: -(1isize << 31) - 1,
    };
    client
        .send(&sent)
        .await
        .expect("the call succeeds: neither side notices anything");
    let observed = seen.lock().unwrap().pop().unwrap();
    server.shutdown();

    assert_eq!(
        observed, sent,
        "the handler must observe the value the client sent"
    );
}

/// handler -> client: "the client observes a value equal to the handler's reply".
#[tokio::test]
async fn client_observes_the_usize_the_handler_replied() {
    let (server, client, _, _) = start().await;

    let reply = client
        .send(&FileLen {
            file: "a.bin".into(),
        })
        .await
        .expect("the call succeeds");
    let observed: usize = reply.deserialize_view().unwrap();
    server.shutdown();

    assert_eq!(
        observed, FILE_LEN,
        "the client must observe the value the handler replied"
    );
}

/// The same 32 bit cut applies to the length of a collection. It can only be
/// reached without the 2 GiB offset limit getting in the way first when the
/// elements are zero sized, so this one is a curiosity; it needs `--release`
/// (4 * 10^9 loop iterations take ~12 minutes in a debug build).
#[tokio::test]
#[cfg_attr(debug_assertions, ignore)]
async fn handler_observes_the_length_the_client_sent() {
    let (server, client, _, seen_acks) = start().await;

    let n = (1usize << 32) + 3;
    let sent = Acks { acks: vec![(); n] };
    client.send(&sent).await.expect("the call succeeds");
    let observed = seen_acks.lock().unwrap().pop().unwrap();
    server.shutdown();

    assert_eq!(observed, n, "the handler must observe all the acks");
}

/// Not over the network, to show where it happens: the frame the client
/// builds is a perfectly valid one (its checksum matches), it simply does not
/// contain the value.
#[test]
fn the_frame_is_valid_but_does_not_hold_the_value() {
    let sent = ReadAt {
        file: String::new(),
        offset: usize::MAX,
        delta: isize::MIN,
    };
    let frame = datacake_rpc::to_view_bytes(&sent).unwrap();
    let view = datacake_rpc::DataView::<ReadAt>::using(frame)
        .expect("checksum and length are fine");
    let back: ReadAt = view.deserialize_view().unwrap();
    assert_eq!(back, sent);
}
