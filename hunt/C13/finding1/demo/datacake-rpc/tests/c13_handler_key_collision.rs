//! C13 hunt, finding 1: the registry does not key handlers by (service name, message path) but
//! by a 64 bit hash of the request path (`HandlerKey = u64`, `crate::hash` = std `DefaultHasher`
//! with its fixed zero key). Two different services whose paths hash alike are one and the same
//! entry for `add_handlers` / `remove_handlers` / `get_handler`.
//!
//! The two service names below were found in 32 s (4 threads) by a distinguished-point collision
//! search over names `s<16 hex digits>` with the default message path of `u64`:
//!
//!     hash("/s438b6a3a7f167ba5/u64") == hash("/s3e37f0a03b0b3b50/u64") == 0x99206e2c9cfae303
//!
//! Both services handle the same message type (`u64`), their names differ, so this is inside
//! "a small set of services sharing ... message types".
use datacake_rpc::{
    Channel,
    ErrorCode,
    Handler,
    Request,
    RpcClient,
    RpcService,
    Server,
    ServiceRegistry,
    Status,
};

macro_rules! service {
    ($ty:ident, $name:literal, $add:literal) => {
        pub struct $ty;

        impl RpcService for $ty {
            fn service_name() -> &'static str {
                $name
            }

            fn register_handlers(registry: &mut ServiceRegistry<Self>) {
                registry.add_handler::<u64>();
            }
        }

        #[datacake_rpc::async_trait]
        impl Handler<u64> for $ty {
            type Reply = u64;

            async fn on_message(&self, msg: Request<u64>) -> Result<u64, Status> {
                Ok(msg.deserialize_view().unwrap() + $add)
            }
        }
    };
}

service!(Alpha, "s438b6a3a7f167ba5", 1u64);
service!(Beta, "s3e37f0a03b0b3b50", 1000u64);
// A control with an ordinary name, to show that the sequences themselves are handled correctly.
service!(Gamma, "gamma", 1_000_000u64);

async fn call<Svc>(channel: &Channel) -> Result<u64, ErrorCode>
where
    Svc: Handler<u64, Reply = u64>,
{
    RpcClient::<Svc>::new(channel.clone())
        .send(&0u64)
        .await
        .map(|view| view.deserialize_view().unwrap())
        .map_err(|status| status.code)
}

const REFUSED: Result<u64, ErrorCode> = Err(ErrorCode::ServiceUnavailable);

/// History: add(Alpha). Beta was never added, its requests must be refused.
#[tokio::test]
async fn a_service_that_was_never_added_is_refused() {
    let addr = test_helper::get_unused_addr();
    let server = Server::listen(addr).await.unwrap();
    let channel = Channel::connect(addr);
    assert_ne!(Alpha::service_name(), Beta::service_name());

    server.add_service(Alpha);
    assert_eq!(call::<Alpha>(&channel).await, Ok(1));
    assert_eq!(call::<Gamma>(&channel).await, REFUSED, "control");
    assert_eq!(
        call::<Beta>(&channel).await,
        REFUSED,
        "Beta was never added, yet its request was dispatched (to Alpha's handler)"
    );
    server.shutdown();
}

/// History: add(Alpha), add(Beta), remove(Beta). Alpha was added and not removed since.
#[tokio::test]
async fn removing_one_service_does_not_disable_another() {
    let addr = test_helper::get_unused_addr();
    let server = Server::listen(addr).await.unwrap();
    let channel = Channel::connect(addr);

    // control: the same history with Gamma in the place of Beta
    server.add_service(Alpha);
    server.add_service(Gamma);
    server.remove_service(Gamma::service_name());
    assert_eq!(call::<Alpha>(&channel).await, Ok(1), "control");
    assert_eq!(call::<Gamma>(&channel).await, REFUSED, "control");

    server.add_service(Beta);
    server.remove_service(Beta::service_name());
    assert_eq!(
        call::<Alpha>(&channel).await,
        Ok(1),
        "Alpha was added and never removed; removing Beta took Alpha's handler away"
    );
    server.shutdown();
}

/// History: add(Alpha), add(Beta), remove(Alpha). Alpha is removed, Beta is registered.
#[tokio::test]
async fn removing_one_service_leaves_nothing_of_it_behind_and_keeps_the_other() {
    let addr = test_helper::get_unused_addr();
    let server = Server::listen(addr).await.unwrap();
    let channel = Channel::connect(addr);

    server.add_service(Alpha);
    server.add_service(Beta);
    // (already here a request for Alpha is answered by Beta's handler)
    let alpha = call::<Alpha>(&channel).await;
    let beta = call::<Beta>(&channel).await;
    server.remove_service(Alpha::service_name());
    let alpha_after = call::<Alpha>(&channel).await;
    let beta_after = call::<Beta>(&channel).await;
    assert_eq!(
        (alpha, beta, alpha_after, beta_after),
        (Ok(1), Ok(1000), REFUSED, Ok(1000)),
        "(Alpha, Beta) with both registered, then (Alpha, Beta) after remove(Alpha)"
    );
    server.shutdown();
}
