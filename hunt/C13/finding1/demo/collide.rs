// Finds two distinct service names whose request paths "/<name>/u64" have the same
// std DefaultHasher (SipHash-1-3, zero key) value, by distinguished-point collision search.
use std::collections::hash_map::DefaultHasher;
use std::collections::HashMap;
use std::hash::{Hash, Hasher};
use std::sync::atomic::{AtomicBool, Ordering};
use std::sync::{Arc, Mutex};

fn uri(x: u64) -> String {
    format!("/s{:016x}/u64", x)
}

#[inline]
fn f(x: u64) -> u64 {
    const HEX: &[u8; 16] = b"0123456789abcdef";
    let mut buf = *b"/s0000000000000000/u64";
    for i in 0..16 {
        buf[2 + i] = HEX[((x >> (60 - 4 * i)) & 15) as usize];
    }
    let s = unsafe { std::str::from_utf8_unchecked(&buf) };
    let mut h = DefaultHasher::new();
    s.hash(&mut h);
    h.finish()
}

const DP_MASK: u64 = (1 << 20) - 1;

fn splitmix(mut z: u64) -> u64 {
    z = z.wrapping_add(0x9e3779b97f4a7c15);
    z = (z ^ (z >> 30)).wrapping_mul(0xbf58476d1ce4e5b9);
    z = (z ^ (z >> 27)).wrapping_mul(0x94d049bb133111eb);
    z ^ (z >> 31)
}

fn main() {
    assert_eq!(uri(0x1234), "/s0000000000001234/u64");
    {
        let mut h = DefaultHasher::new();
        uri(0x1234).hash(&mut h);
        assert_eq!(h.finish(), f(0x1234));
    }
    let table: Arc<Mutex<HashMap<u64, (u64, u64)>>> = Arc::new(Mutex::new(HashMap::new()));
    let stop = Arc::new(AtomicBool::new(false));
    let mut ths = vec![];
    for t in 0..4u64 {
        let (table, stop) = (table.clone(), stop.clone());
        ths.push(std::thread::spawn(move || {
            let mut ctr = 0u64;
            while !stop.load(Ordering::Relaxed) {
                ctr += 1;
                let start = splitmix(t << 56 | ctr);
                let mut x = start;
                let mut len = 0u64;
                loop {
                    x = f(x);
                    len += 1;
                    if x & DP_MASK == 0 || len > 40 * (DP_MASK + 1) { break; }
                }
                if x & DP_MASK != 0 { continue; }
                let prev = {
                    let mut tb = table.lock().unwrap();
                    let p = tb.get(&x).copied();
                    if p.is_none() { tb.insert(x, (start, len)); }
                    if tb.len() % 500 == 0 { eprintln!("trails: {}", tb.len()); }
                    p
                };
                if let Some((s2, l2)) = prev {
                    if s2 == start { continue; }
                    let (mut a, mut la, mut b, mut lb) = (start, len, s2, l2);
                    while la > lb { a = f(a); la -= 1; }
                    while lb > la { b = f(b); lb -= 1; }
                    if a == b { continue; }
                    loop {
                        let (na, nb) = (f(a), f(b));
                        if na == nb { break; }
                        a = na; b = nb;
                    }
                    println!("COLLISION {} {} hash={:#x}", uri(a), uri(b), f(a));
                    assert_eq!(f(a), f(b));
                    assert_ne!(a, b);
                    stop.store(true, Ordering::Relaxed);
                }
            }
        }));
    }
    for t in ths { t.join().unwrap(); }
}
