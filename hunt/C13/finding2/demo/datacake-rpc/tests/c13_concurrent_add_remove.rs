//! C13 hunt, finding 2: `ServerState` keeps two maps (`services`: name -> keys, `handlers`:
//! key -> handler) behind two separate locks and neither `add_handlers` nor `remove_handlers`
//! holds both at once. When an `add_service` and a `remove_service` of the same service overlap
//! (`Server` is `Sync`, both take `&self`), this interleaving is possible:
//!
//!     add:    services["echo"] = {k}                 (services lock released)
//!     remove: services.remove("echo") -> {k}
//!     remove: handlers.retain(|key| key != k)        (nothing to drop yet)
//!     add:    handlers.extend({k -> handler})
//!
//! The registry now dispatches "echo" although `services` has forgotten it, so every later
//! `remove_service("echo")` returns early (`None => return`) and the handler can never be
//! removed again (short of adding the service once more).
//!
//! Each round lets one `add_service(Echo)` race one `remove_service("echo")`; then, with both
//! threads idle, the main thread calls `remove_service("echo")` on its own. Whatever order the
//! two racing calls took effect in, the last registry change is a removal, so the request that
//! follows must be refused as an unknown service.
use std::sync::atomic::{AtomicUsize, Ordering};
use std::sync::Arc;
use std::time::{Duration, Instant};

use datacake_rpc::{
    Channel,
    ErrorCode,
    Handler,
    Request,
    RpcClient,
    RpcService,
    Server,
    ServiceRegistry,
    Status,
};

pub struct Echo;

impl RpcService for Echo {
    fn service_name() -> &'static str {
        "echo"
    }

    fn register_handlers(registry: &mut ServiceRegistry<Self>) {
        registry.add_handler::<u64>();
    }
}

#[datacake_rpc::async_trait]
impl Handler<u64> for Echo {
    type Reply = u64;

    async fn on_message(&self, msg: Request<u64>) -> Result<u64, Status> {
        Ok(msg.deserialize_view().unwrap())
    }
}

const MAX_ROUNDS: usize = 400_000;
const BUDGET: Duration = Duration::from_secs(300);

fn jitter(round: usize) -> usize {
    round.wrapping_mul(2654435761) % 1024
}

#[test]
fn removed_service_is_refused_after_overlapping_add_and_remove() {
    let rt = tokio::runtime::Builder::new_multi_thread()
        .worker_threads(2)
        .enable_all()
        .build()
        .unwrap();
    let addr = test_helper::get_unused_addr();
    let server = Arc::new(rt.block_on(Server::listen(addr)).unwrap());
    let client = {
        let _guard = rt.enter();
        RpcClient::<Echo>::new(Channel::connect(addr))
    };

    // Sanity: the sequential behaviour is right.
    assert_eq!(
        rt.block_on(client.send(&1u64)).unwrap_err().code,
        ErrorCode::ServiceUnavailable
    );
    server.add_service(Echo);
    assert_eq!(rt.block_on(client.send(&1u64)).unwrap(), 1);
    server.remove_service("echo");
    assert_eq!(
        rt.block_on(client.send(&1u64)).unwrap_err().code,
        ErrorCode::ServiceUnavailable
    );

    let go = Arc::new(AtomicUsize::new(0));
    let done = Arc::new(AtomicUsize::new(0));
    let mut threads = vec![];
    for who in 0..2 {
        let (server, go, done) = (server.clone(), go.clone(), done.clone());
        threads.push(std::thread::spawn(move || {
            let mut seen = 0;
            loop {
                let mut round;
                loop {
                    round = go.load(Ordering::Acquire);
                    if round != seen {
                        break;
                    }
                    std::hint::spin_loop();
                }
                if round == usize::MAX {
                    return;
                }
                seen = round;
                if who == 0 {
                    server.add_service(Echo);
                } else {
                    // add_service does a little work before it touches the registry
                    for _ in 0..jitter(round) {
                        std::hint::spin_loop();
                    }
                    server.remove_service("echo");
                }
                done.fetch_add(1, Ordering::AcqRel);
            }
        }));
    }

    let started = Instant::now();
    let mut violation = None;
    for round in 1..=MAX_ROUNDS {
        go.store(round, Ordering::Release);
        while done.load(Ordering::Acquire) != 2 * round {
            std::hint::spin_loop();
        }

        // Both racing calls have returned. From here on everything is sequential.
        server.remove_service("echo");
        let first = rt
            .block_on(client.send(&round_as_u64(round)))
            .map(|view| view.deserialize_view().unwrap());
        if let Ok(reply) = first {
            // ... and it stays that way however often the service is removed.
            server.remove_service("echo");
            server.remove_service("echo");
            let again = rt
                .block_on(client.send(&7u64))
                .map(|view| view.deserialize_view().unwrap());
            violation = Some((round, reply, again));
            break;
        }
        if started.elapsed() > BUDGET {
            println!("gave up after {round} rounds");
            break;
        }
    }
    go.store(usize::MAX, Ordering::Release);
    for thread in threads {
        thread.join().unwrap();
    }

    if let Some((round, reply, again)) = violation {
        panic!(
            "round {round} ({:?}): after add_service(Echo) || remove_service(\"echo\") had both \
             returned and remove_service(\"echo\") was called once more, the request was still \
             dispatched to the Echo handler (reply {reply}); after two further \
             remove_service(\"echo\") calls the reply is {again:?} - the service can no longer \
             be removed",
            started.elapsed(),
        );
    }
}

fn round_as_u64(round: usize) -> u64 {
    round as u64
}
