use std::sync::{Arc, OnceLock};
use datacake_rpc::{Channel, ErrorCode, Handler, Request, RpcClient, RpcService, Server, ServiceRegistry, Status};

macro_rules! handler { ($ty:ident, $m:ty, $r:expr) => {
    #[datacake_rpc::async_trait]
    impl Handler<$m> for $ty { type Reply = u64;
        async fn on_message(&self, _msg: Request<$m>) -> Result<u64, Status> { Ok($r) } }
}; }
pub struct A; pub struct B; pub struct C;
impl RpcService for A { fn register_handlers(r: &mut ServiceRegistry<Self>) { r.add_handler::<u64>(); r.add_handler::<u32>(); } }
impl RpcService for B { fn register_handlers(r: &mut ServiceRegistry<Self>) { r.add_handler::<u64>(); } }
impl RpcService for C { fn register_handlers(r: &mut ServiceRegistry<Self>) { r.add_handler::<u16>(); } }
handler!(A, u64, 1); handler!(A, u32, 2); handler!(B, u64, 3); handler!(C, u16, 4);

async fn obs(ch: &Channel) -> [Option<u64>; 4] {
    fn f<T: PartialEq<u64> + std::fmt::Debug>(r: Result<T, Status>, want: u64) -> Option<u64> {
        match r { Ok(v) => { assert!(v == want); Some(want) }, Err(s) => { assert_eq!(s.code, ErrorCode::ServiceUnavailable); None } }
    }
    let (ca, cb, cc) = (RpcClient::<A>::new(ch.clone()), RpcClient::<B>::new(ch.clone()), RpcClient::<C>::new(ch.clone()));
    let (a1, a2, b, c) = tokio::join!(ca.send(&0u64), ca.send(&0u32), cb.send(&0u64), cc.send(&0u16));
    [f(a1, 1), f(a2, 2), f(b, 3), f(c, 4)]
}

#[tokio::test(flavor = "multi_thread", worker_threads = 2)]
async fn exhaustive() {
    let addr = test_helper::get_unused_addr();
    let server = Server::listen(addr).await.unwrap();
    let ch = Channel::connect(addr);
    let names = [A::service_name(), B::service_name(), C::service_name()];
    let mut n = 0;
    for len in 0..=4u32 {
        for code in 0..6usize.pow(len) {
            for nm in names { server.remove_service(nm); }
            let mut reg = [false; 3];
            let mut c = code;
            for _ in 0..len {
                let op = c % 6; c /= 6;
                match op { 0 => server.add_service(A), 1 => server.add_service(B), 2 => server.add_service(C),
                    k => server.remove_service(names[k - 3]) }
                if op < 3 { reg[op] = true } else { reg[op - 3] = false }
                let want = [reg[0].then_some(1), reg[0].then_some(2), reg[1].then_some(3), reg[2].then_some(4)];
                assert_eq!(obs(&ch).await, want, "len {len} code {code}");
                n += 1;
            }
        }
    }
    println!("checked {n} states");
}

// Drop re-entrancy
pub struct Helper;
impl RpcService for Helper { fn register_handlers(r: &mut ServiceRegistry<Self>) { r.add_handler::<u64>(); } }
handler!(Helper, u64, 9);
static SERVER: OnceLock<Arc<Server>> = OnceLock::new();
pub struct Owner;
impl Drop for Owner { fn drop(&mut self) { if let Some(s) = SERVER.get() { s.remove_service(Helper::service_name()); } } }
impl RpcService for Owner { fn register_handlers(r: &mut ServiceRegistry<Self>) { r.add_handler::<u64>(); } }
handler!(Owner, u64, 8);

#[tokio::test(flavor = "multi_thread", worker_threads = 2)]
async fn drop_reentrancy() {
    let addr = test_helper::get_unused_addr();
    let server = Arc::new(Server::listen(addr).await.unwrap());
    let _ = SERVER.set(server.clone());
    server.add_service(Owner);
    server.add_service(Helper);
    let s2 = server.clone();
    let t = std::thread::spawn(move || { s2.remove_service(Owner::service_name()); });
    std::thread::sleep(std::time::Duration::from_secs(2));
    println!("remove_service finished: {}", t.is_finished());
    std::process::exit(if t.is_finished() { 0 } else { 3 });
}
