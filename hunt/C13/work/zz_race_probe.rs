use std::sync::atomic::{AtomicUsize, Ordering};
use std::sync::Arc;

use datacake_rpc::{Channel, Handler, Request, RpcClient, RpcService, Server, ServiceRegistry, Status};

pub struct Echo;
impl RpcService for Echo {
    fn service_name() -> &'static str { "echo" }
    fn register_handlers(registry: &mut ServiceRegistry<Self>) {
        registry.add_handler::<u64>();
    }
}
#[datacake_rpc::async_trait]
impl Handler<u64> for Echo {
    type Reply = u64;
    async fn on_message(&self, _msg: Request<u64>) -> Result<u64, Status> { Ok(7) }
}

#[test]
fn race() {
    let rt = tokio::runtime::Builder::new_multi_thread().worker_threads(2).enable_all().build().unwrap();
    let addr = test_helper::get_unused_addr();
    let server = Arc::new(rt.block_on(Server::listen(addr)).unwrap());
    let client = { let _g = rt.enter(); RpcClient::<Echo>::new(Channel::connect(addr)) };

    let rounds = 30_000usize;
    let go = Arc::new(AtomicUsize::new(0));
    let done = Arc::new(AtomicUsize::new(0));
    let mut threads = vec![];
    for who in 0..2 {
        let (server, go, done) = (server.clone(), go.clone(), done.clone());
        threads.push(std::thread::spawn(move || {
            let mut seen = 0;
            loop {
                let mut g;
                loop { g = go.load(Ordering::Acquire); if g != seen { break; } std::hint::spin_loop(); }
                if g == usize::MAX { return; }
                seen = g;
                if who == 0 {
                    server.add_service(Echo);
                } else {
                    let delay = (g.wrapping_mul(2654435761)) % 3000;
                    for _ in 0..delay { std::hint::spin_loop(); }
                    server.remove_service("echo");
                }
                done.fetch_add(1, Ordering::AcqRel);
            }
        }));
    }
    let t0 = std::time::Instant::now();
    let mut hits = vec![];
    for i in 1..=rounds {
        go.store(i, Ordering::Release);
        while done.load(Ordering::Acquire) != 2 * i { std::hint::spin_loop(); }
        // sequential from here on
        server.remove_service("echo");
        if rt.block_on(client.send(&1u64)).is_ok() {
            hits.push((i, (i.wrapping_mul(2654435761)) % 3000));
            // repair
            server.add_service(Echo);
            server.remove_service("echo");
            assert!(rt.block_on(client.send(&1u64)).is_err());
        }
    }
    go.store(usize::MAX, Ordering::Release);
    for t in threads { t.join().unwrap(); }
    println!("hits={} {:?} after {:?}", hits.len(), hits, t0.elapsed());
}
