use std::time::Duration;
use datacake_crdt::HLCTimestamp;
use datacake_eventual_consistency::{Document, Storage};
use datacake_sqlite::SqliteStorage;

#[tokio::test]
async fn edge() {
    let path = std::env::temp_dir().join(format!("c07-edge-{}", uuid::Uuid::new_v4()));
    let s = SqliteStorage::open(&path).await.unwrap();
    let ts = HLCTimestamp::new(Duration::from_secs(5), 1, 1);
    for ks in ["a", "weird name/../x", "ünï", "a-kv", "a-meta", "keyspace"] {
        for id in [0u64, 1, u64::MAX, 1 << 63, (1 << 63) - 1] {
            s.put(ks, Document::new(id, ts, Vec::<u8>::new())).await.unwrap();
        }
        s.mark_as_tombstone(ks, 77, ts).await.unwrap();
    }
    drop(s);
    let s = SqliteStorage::open(&path).await.unwrap();
    let mut list = s.get_keyspace_list().await.unwrap();
    list.sort();
    println!("{list:?}");
    for ks in list {
        let mut m = s.iter_metadata(&ks).await.unwrap().collect::<Vec<_>>();
        m.sort();
        println!("{ks}: {m:?}");
        assert_eq!(m.len(), 6);
        assert_eq!(m.iter().filter(|e| e.2).count(), 1);
        assert!(s.get(&ks, 0).await.unwrap().is_some());
    }
    let r = s.put("", Document::new(1, ts, vec![1])).await;
    println!("empty keyspace: {r:?}");
    let long = "x".repeat(600);
    let r = s.put(&long, Document::new(1, ts, vec![1])).await;
    println!("long keyspace: {r:?}");
    let r = s.put("a", Document::new(1, ts, vec![1])).await;
    println!("after: {r:?}");
    println!("{:?}", s.get_keyspace_list().await.unwrap().len());
}
