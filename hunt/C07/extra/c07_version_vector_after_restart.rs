use std::marker::PhantomData;
use std::sync::Arc;
use std::time::Duration;
use datacake_crdt::{HLCTimestamp, OrSWotSet};
use datacake_eventual_consistency::verif::*;
use datacake_eventual_consistency::{Document, DocumentMetadata, Storage};
use datacake_node::Clock;
use datacake_sqlite::SqliteStorage;

fn ts(s: u64) -> HLCTimestamp { HLCTimestamp::new(Duration::from_secs(s), 0, 5) }

async fn live(group: &KeyspaceGroup<SqliteStorage>) -> Vec<u64> {
    let ks = group.get_or_create_keyspace("k").await;
    let bytes = ks.send(Serialize).await.unwrap();
    let set = OrSWotSet::<NUM_SOURCES>::from_bytes(&bytes).unwrap();
    let (l, d) = OrSWotSet::<NUM_SOURCES>::default().diff(&set);
    println!("live {l:?} dead {d:?}");
    l.into_iter().map(|e| e.0).collect()
}

#[tokio::test]
async fn versions() {
    let path = std::env::temp_dir().join(format!("c07-{}.db", uuid::Uuid::new_v4()));
    let storage = Arc::new(SqliteStorage::open(&path).await.unwrap());
    let group = KeyspaceGroup::new(storage.clone(), Clock::new(0)).await;
    let ks = group.get_or_create_keyspace("k").await;
    let set = |source: usize, id: u64, t: u64| Set::<SqliteStorage> { source, doc: Document::new(id, ts(t), vec![1]), ctx: None, _marker: PhantomData };
    ks.send(set(0, 1, 1000)).await.unwrap();
    ks.send(Del::<SqliteStorage> { source: 0, doc: DocumentMetadata::new(1, ts(1001)), _marker: PhantomData }).await.unwrap();
    ks.send(set(0, 2, 10000)).await.unwrap();
    ks.send(set(1, 3, 10001)).await.unwrap();
    ks.send(PurgeDeletes::<SqliteStorage>(PhantomData)).await.unwrap();
    println!("storage: {:?}", storage.iter_metadata("k").await.unwrap().collect::<Vec<_>>());
    // stale replica re-sends doc 1
    ks.send(set(1, 1, 1000)).await.unwrap();
    println!("pre-stop after stale put: {:?}", live(&group).await);

    let storage = Arc::new(SqliteStorage::open(&path).await.unwrap());
    let group2 = KeyspaceGroup::new(storage.clone(), Clock::new(0)).await;
    group2.load_states_from_storage().await.unwrap();
    let ks2 = group2.get_or_create_keyspace("k").await;
    ks2.send(set(1, 1, 1000)).await.unwrap();
    println!("restarted after stale put: {:?}", live(&group2).await);
}
