use std::collections::BTreeMap;
use std::marker::PhantomData;
use std::sync::Arc;
use std::time::Duration;

use datacake_crdt::{HLCTimestamp, OrSWotSet};
use datacake_eventual_consistency::verif::{
    Del,
    DocVec,
    KeyspaceGroup,
    MultiDel,
    MultiSet,
    PurgeDeletes,
    Serialize,
    Set,
    NUM_SOURCES,
};
use datacake_eventual_consistency::{Document, DocumentMetadata, Storage};
use datacake_node::Clock;
use datacake_sqlite::SqliteStorage;

struct Rng(u64);
impl Rng {
    fn next(&mut self) -> u64 {
        let mut x = self.0;
        x ^= x << 13;
        x ^= x >> 7;
        x ^= x << 17;
        self.0 = x;
        x
    }
    fn below(&mut self, n: u64) -> u64 {
        self.next() % n
    }
}

type View = (BTreeMap<u64, HLCTimestamp>, BTreeMap<u64, HLCTimestamp>);

fn view_of(bytes: &[u8]) -> View {
    let set = OrSWotSet::<NUM_SOURCES>::from_bytes(bytes).unwrap();
    let empty = OrSWotSet::<NUM_SOURCES>::default();
    let (live, dead) = empty.diff(&set);
    (live.into_iter().collect(), dead.into_iter().collect())
}

async fn group_view<S: Storage>(group: &KeyspaceGroup<S>, ks: &str) -> View {
    let actor = group.get_or_create_keyspace(ks).await;
    let bytes = actor.send(Serialize).await.unwrap();
    view_of(&bytes)
}

async fn storage_view<S: Storage>(storage: &S, ks: &str) -> View {
    let mut live = BTreeMap::new();
    let mut dead = BTreeMap::new();
    for (k, ts, tomb) in storage.iter_metadata(ks).await.unwrap() {
        if tomb {
            dead.insert(k, ts);
        } else {
            live.insert(k, ts);
        }
    }
    (live, dead)
}

fn rand_ts(rng: &mut Rng) -> HLCTimestamp {
    let secs = rng.below(6) * 2500 + rng.below(3);
    HLCTimestamp::new(
        Duration::from_secs(secs),
        rng.below(3) as u16,
        rng.below(3) as u8,
    )
}

#[tokio::test(flavor = "multi_thread")]
async fn explore() {
    let dupes = std::env::var("DUPES").is_ok();
    let mut problems = 0;
    for seed in 1..=60u64 {
        let mut rng = Rng(seed.wrapping_mul(0x9E3779B97F4A7C15));
        let path = std::env::temp_dir().join(format!("c07-{}.db", uuid::Uuid::new_v4()));
        let storage = Arc::new(SqliteStorage::open(&path).await.unwrap());
        let group = KeyspaceGroup::new(storage.clone(), Clock::new(0)).await;
        let keyspaces = ["a", "b"];
        let mut log = Vec::new();

        for step in 0..40 {
            let ks = keyspaces[rng.below(2) as usize];
            let actor = group.get_or_create_keyspace(ks).await;
            let source = rng.below(2) as usize;
            match rng.below(5) {
                0 => {
                    let doc = Document::new(rng.below(5), rand_ts(&mut rng), vec![1u8]);
                    log.push(format!("{ks} set s{source} {:?}", doc.metadata));
                    actor
                        .send(Set {
                            source,
                            doc,
                            ctx: None,
                            _marker: PhantomData,
                        })
                        .await
                        .unwrap();
                },
                1 => {
                    let n = rng.below(4);
                    let mut docs = DocVec::new();
                    for _ in 0..n {
                        let id = rng.below(5);
                        if !dupes && docs.iter().any(|d: &Document| d.id() == id) {
                            continue;
                        }
                        docs.push(Document::new(id, rand_ts(&mut rng), vec![2u8]));
                    }
                    log.push(format!(
                        "{ks} mset s{source} {:?}",
                        docs.iter().map(|d| d.metadata).collect::<Vec<_>>()
                    ));
                    actor
                        .send(MultiSet {
                            source,
                            docs,
                            ctx: None,
                            _marker: PhantomData,
                        })
                        .await
                        .unwrap();
                },
                2 => {
                    let doc = DocumentMetadata::new(rng.below(5), rand_ts(&mut rng));
                    log.push(format!("{ks} del s{source} {:?}", doc));
                    actor
                        .send(Del {
                            source,
                            doc,
                            _marker: PhantomData,
                        })
                        .await
                        .unwrap();
                },
                3 => {
                    let n = rng.below(4);
                    let mut docs = DocVec::new();
                    for _ in 0..n {
                        let id = rng.below(5);
                        if !dupes
                            && docs.iter().any(|d: &DocumentMetadata| d.id == id)
                        {
                            continue;
                        }
                        docs.push(DocumentMetadata::new(id, rand_ts(&mut rng)));
                    }
                    log.push(format!("{ks} mdel s{source} {:?}", docs));
                    actor
                        .send(MultiDel {
                            source,
                            docs,
                            _marker: PhantomData,
                        })
                        .await
                        .unwrap();
                },
                _ => {
                    log.push(format!("{ks} purge"));
                    actor.send(PurgeDeletes(PhantomData)).await.unwrap();
                },
            }

            // restart
            let storage2 = Arc::new(SqliteStorage::open(&path).await.unwrap());
            let group2 = KeyspaceGroup::new(storage2.clone(), Clock::new(0)).await;
            group2.load_states_from_storage().await.unwrap();
            let listed = storage2.get_keyspace_list().await.unwrap();
            for ks in keyspaces {
                let before = group_view(&group, ks).await;
                let on_disk = storage_view(&*storage2, ks).await;
                if !listed.iter().any(|k| k == ks) {
                    if before.0.len() + before.1.len() != 0 {
                        problems += 1;
                        println!("seed {seed} step {step}: keyspace {ks} not listed but memory has {before:?}\n{log:#?}");
                    }
                    continue;
                }
                let after = group_view(&group2, ks).await;
                if after != on_disk {
                    problems += 1;
                    println!("seed {seed} step {step} ks {ks}: REBUILD != STORAGE\n after={after:?}\n disk={on_disk:?}\n{log:#?}");
                }
                if after != before {
                    problems += 1;
                    println!("seed {seed} step {step} ks {ks}: REBUILD != PRE-STOP\n after={after:?}\n before={before:?}\n{log:#?}");
                    break;
                }
            }
            if problems > 3 {
                panic!("enough");
            }
        }
        let _ = std::fs::remove_file(&path);
    }
    assert_eq!(problems, 0);
}
