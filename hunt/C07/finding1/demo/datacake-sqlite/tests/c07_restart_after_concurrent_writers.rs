//! C07 end-to-end demonstration (public API for all mutations; the `verif` feature is only used
//! to *read* a node's replicated set over the replication RPC, exactly like a peer does).
//!
//! Node 1 serves several concurrent writers of the same keys with `Consistency::None`. Node 2
//! receives these writes through node 1's task distributor (one `BatchPayload` per second, applied
//! by `KeyspaceActor::on_multi_set`) and acknowledges the batch. Node 2 is then stopped and
//! started again on the same SQLite file. C07 says the rebuilt set of node 2 must still show every
//! mutation node 2 had acknowledged before the stop. It does not.
use std::collections::BTreeMap;
use std::time::Duration;

use datacake_crdt::HLCTimestamp;
use datacake_eventual_consistency::verif::ReplicationClient;
use datacake_eventual_consistency::EventuallyConsistentStoreExtension;
use datacake_node::{
    ConnectionConfig,
    Consistency,
    DCAwareSelector,
    DatacakeNode,
    DatacakeNodeBuilder,
};
use datacake_sqlite::SqliteStorage;

static KEYSPACE: &str = "c07";
const ROUNDS: u64 = 3;
const KEYS_PER_ROUND: u64 = 32;
const NUM_KEYS: u64 = ROUNDS * KEYS_PER_ROUND;
const WRITERS_PER_KEY: usize = 32;

/// The live part of the replicated set `target` serves to its peers for [KEYSPACE].
async fn replicated_set_of(
    asker: &DatacakeNode,
    target: &DatacakeNode,
) -> BTreeMap<u64, HLCTimestamp> {
    let channel = asker.network().get_or_connect(target.me().public_addr);
    let mut client =
        ReplicationClient::<SqliteStorage>::new(asker.clock().clone(), channel);
    let (_, set) = client.get_state(KEYSPACE).await.expect("get state");
    (0..NUM_KEYS)
        .filter_map(|k| set.get(&k).map(|ts| (k, *ts)))
        .collect()
}

#[tokio::test(flavor = "multi_thread", worker_threads = 8)]
async fn acked_writes_survive_a_restart_of_the_replica() -> anyhow::Result<()> {
    let dir = std::env::temp_dir().join(format!("c07-{}", uuid::Uuid::new_v4()));
    std::fs::create_dir_all(&dir)?;
    let path_1 = dir.join("node-1.db");
    let path_2 = dir.join("node-2.db");

    let addr_1 = test_helper::get_unused_addr();
    let addr_2 = test_helper::get_unused_addr();
    let node_1 = DatacakeNodeBuilder::<DCAwareSelector>::new(
        1,
        ConnectionConfig::new(addr_1, addr_1, [addr_2.to_string()]),
    )
    .connect()
    .await?;
    let node_2 = DatacakeNodeBuilder::<DCAwareSelector>::new(
        2,
        ConnectionConfig::new(addr_2, addr_2, [addr_1.to_string()]),
    )
    .connect()
    .await?;
    node_1.wait_for_nodes(&[2], Duration::from_secs(60)).await?;
    node_2.wait_for_nodes(&[1], Duration::from_secs(60)).await?;

    // The production repair interval (1 hour): during this test the only replication that
    // happens is the one every mutation gets, through the task distributor.
    let hour = Duration::from_secs(3600);
    let store_1 = node_1
        .add_extension(
            EventuallyConsistentStoreExtension::new(SqliteStorage::open(&path_1).await?)
                .with_repair_interval(hour),
        )
        .await?;
    let store_2 = node_2
        .add_extension(
            EventuallyConsistentStoreExtension::new(SqliteStorage::open(&path_2).await?)
                .with_repair_interval(hour),
        )
        .await?;
    // Let the (only) start-up repair round of both nodes pass while there is no data yet.
    tokio::time::sleep(Duration::from_secs(3)).await;

    // Concurrent writers on node 1. Nothing unusual: every call is a plain `put`.
    // (Several bursts on disjoint keys, only to make the outcome independent of scheduling luck.)
    for round in 0..ROUNDS {
        let mut writers = Vec::new();
        for writer in 0..WRITERS_PER_KEY {
            for key in round * KEYS_PER_ROUND..(round + 1) * KEYS_PER_ROUND {
                let handle = store_1.handle();
                writers.push(tokio::spawn(async move {
                    handle
                        .put(
                            KEYSPACE,
                            key,
                            format!("value of writer {writer}").into_bytes(),
                            Consistency::None,
                        )
                        .await
                        .expect("put");
                }));
            }
        }
        for writer in writers {
            writer.await?;
        }
        tokio::time::sleep(Duration::from_millis(1500)).await;
    }

    // The distributor of node 1 sends its batch within a second; node 2 applies and acks it.
    tokio::time::sleep(Duration::from_secs(4)).await;

    let set_1 = replicated_set_of(&node_2, &node_1).await;
    let set_2_before_stop = replicated_set_of(&node_1, &node_2).await;
    assert_eq!(set_1.len() as u64, NUM_KEYS);
    assert_eq!(
        set_1, set_2_before_stop,
        "test premise: node 2 acknowledged all of node 1's writes and shows them in its set",
    );

    // Stop node 2 ...
    drop(store_2);
    node_2.shutdown().await;
    tokio::time::sleep(Duration::from_millis(500)).await;

    // ... and start it again on the same storage. It has no seed nodes, so whatever its set
    // contains comes from `load_states_from_storage` alone.
    let addr_2b = test_helper::get_unused_addr();
    let node_2b = DatacakeNodeBuilder::<DCAwareSelector>::new(
        2,
        ConnectionConfig::new(addr_2b, addr_2b, Vec::<String>::new()),
    )
    .connect()
    .await?;
    let _store_2b = node_2b
        .add_extension(
            EventuallyConsistentStoreExtension::new(SqliteStorage::open(&path_2).await?)
                .with_repair_interval(hour),
        )
        .await?;
    let set_2_after_restart = replicated_set_of(&node_1, &node_2b).await;

    let lost = set_2_before_stop
        .iter()
        .filter(|(k, ts)| set_2_after_restart.get(*k) != Some(*ts))
        .map(|(k, ts)| {
            format!(
                "key {k}: acknowledged {ts} before the stop, rebuilt as {:?}",
                set_2_after_restart.get(k).map(|ts| ts.to_string())
            )
        })
        .collect::<Vec<_>>();
    assert!(
        lost.is_empty(),
        "C07 violated: {} of {} keys lost their acknowledged write across the restart of node 2:\n{}",
        lost.len(),
        NUM_KEYS,
        lost.join("\n"),
    );

    let _ = std::fs::remove_dir_all(&dir);
    Ok(())
}
