//! C07, deterministic demonstration.
//!
//! One bulk request that names the same document id twice, newest version first, is acknowledged
//! by the keyspace actor. The in-memory set records the newest version, the storage ends up with
//! the oldest one ("storage is never behind" does not hold). After a restart on the same storage
//! the acknowledged mutation is gone from the rebuilt set.
//!
//! Such a request is what a peer's task distributor sends when two writers of one key overlap on
//! that peer (see `c07_restart_after_concurrent_writers.rs` for the end-to-end version).
use std::collections::BTreeMap;
use std::marker::PhantomData;
use std::sync::Arc;
use std::time::Duration;

use datacake_crdt::{HLCTimestamp, OrSWotSet};
use datacake_eventual_consistency::verif::{
    DocVec,
    KeyspaceGroup,
    MultiDel,
    MultiSet,
    Serialize,
    CONSISTENCY_SOURCE_ID,
    NUM_SOURCES,
};
use datacake_eventual_consistency::{Document, DocumentMetadata, Storage};
use datacake_node::Clock;
use datacake_sqlite::SqliteStorage;

static KEYSPACE: &str = "c07";

type View = (BTreeMap<u64, HLCTimestamp>, BTreeMap<u64, HLCTimestamp>);

/// (live ids, tombstones) of the replicated set the group serves for [KEYSPACE].
async fn replicated_set(group: &KeyspaceGroup<SqliteStorage>) -> View {
    let keyspace = group.get_or_create_keyspace(KEYSPACE).await;
    let bytes = keyspace.send(Serialize).await.expect("serialize");
    let set = OrSWotSet::<NUM_SOURCES>::from_bytes(&bytes).expect("valid set");
    // Everything a set holds is "new" to an empty set.
    let (live, dead) = OrSWotSet::<NUM_SOURCES>::default().diff(&set);
    (live.into_iter().collect(), dead.into_iter().collect())
}

/// (live ids, tombstones) the storage holds for [KEYSPACE].
async fn stored(storage: &SqliteStorage) -> View {
    let mut view = View::default();
    for (id, ts, tombstone) in storage.iter_metadata(KEYSPACE).await.expect("metadata") {
        if tombstone {
            view.1.insert(id, ts);
        } else {
            view.0.insert(id, ts);
        }
    }
    view
}

#[tokio::test]
async fn acked_bulk_put_survives_restart() {
    let path = std::env::temp_dir().join(format!("c07-{}.db", uuid::Uuid::new_v4()));

    // Two versions of document 1, written by node 1 a second apart.
    let older = HLCTimestamp::new(Duration::from_secs(1_000), 0, 1);
    let newer = HLCTimestamp::new(Duration::from_secs(1_001), 0, 1);

    // ---- first life of the node -------------------------------------------------------------
    let storage = Arc::new(SqliteStorage::open(&path).await.expect("open"));
    let group = KeyspaceGroup::new(storage.clone(), Clock::new(0)).await;
    let keyspace = group.get_or_create_keyspace(KEYSPACE).await;

    let mut docs = DocVec::new();
    docs.push(Document::new(1, newer, b"newer".to_vec()));
    docs.push(Document::new(1, older, b"older".to_vec()));
    keyspace
        .send(MultiSet {
            source: CONSISTENCY_SOURCE_ID,
            docs,
            ctx: None,
            _marker: PhantomData,
        })
        .await
        .expect("the bulk put is acknowledged");

    let before_stop = replicated_set(&group).await;
    assert_eq!(before_stop.0.get(&1), Some(&newer), "the set shows the newest write");

    // ---- the node stops here (between two requests) and starts again -----------------------------
    let storage = Arc::new(SqliteStorage::open(&path).await.expect("re-open"));
    let group = KeyspaceGroup::new(storage.clone(), Clock::new(0)).await;
    group.load_states_from_storage().await.expect("load");
    let after_restart = replicated_set(&group).await;

    // First half of C07: the rebuilt set is what storage holds. (This holds.)
    assert_eq!(after_restart, stored(&storage).await);

    // Second half of C07: every mutation acknowledged before the stop is still visible.
    let _ = std::fs::remove_file(&path);
    assert_eq!(
        after_restart, before_stop,
        "the acknowledged write {newer} of document 1 did not survive the restart",
    );
}

#[tokio::test]
async fn acked_bulk_delete_survives_restart() {
    let path = std::env::temp_dir().join(format!("c07-{}.db", uuid::Uuid::new_v4()));

    let older = HLCTimestamp::new(Duration::from_secs(1_000), 0, 1);
    let newer = HLCTimestamp::new(Duration::from_secs(1_001), 0, 1);

    let storage = Arc::new(SqliteStorage::open(&path).await.expect("open"));
    let group = KeyspaceGroup::new(storage.clone(), Clock::new(0)).await;
    let keyspace = group.get_or_create_keyspace(KEYSPACE).await;

    let mut docs = DocVec::new();
    docs.push(DocumentMetadata::new(1, newer));
    docs.push(DocumentMetadata::new(1, older));
    keyspace
        .send(MultiDel {
            source: CONSISTENCY_SOURCE_ID,
            docs,
            _marker: PhantomData,
        })
        .await
        .expect("the bulk delete is acknowledged");
    let before_stop = replicated_set(&group).await;
    assert_eq!(before_stop.1.get(&1), Some(&newer));

    let storage = Arc::new(SqliteStorage::open(&path).await.expect("re-open"));
    let group = KeyspaceGroup::new(storage.clone(), Clock::new(0)).await;
    group.load_states_from_storage().await.expect("load");
    let after_restart = replicated_set(&group).await;
    assert_eq!(after_restart, stored(&storage).await);

    let _ = std::fs::remove_file(&path);
    assert_eq!(
        after_restart, before_stop,
        "the acknowledged tombstone {newer} of document 1 did not survive the restart",
    );
}
