//! C07: a node on `datacake-sqlite` acknowledges a write whose timestamp it cannot read back.
//!
//! `SqliteStorage` keeps `last_updated` as TEXT (`HLCTimestamp::to_string`) and parses it back with
//! `HLCTimestamp::from_str`. The two are not inverse for timestamps whose 8 bit "fractional" field is
//! above 249 (a value no honest clock produces, but nothing on the RPC path checks it: the timestamp
//! of a document is a raw `u64` taken from the wire). `from_str` turns `S-0255` into `S+1` seconds and
//! 5 ticks, and rejects the result when `S` is the last representable second.
//!
//! The mutations below are sent by a "peer" through the real consistency RPC and are acknowledged.
use std::time::Duration;

use datacake_crdt::HLCTimestamp;
use datacake_eventual_consistency::verif::{ConsistencyClient, ReplicationClient};
use datacake_eventual_consistency::{Document, EventuallyConsistentStoreExtension};
use datacake_node::{ConnectionConfig, DCAwareSelector, DatacakeNode, DatacakeNodeBuilder};
use datacake_sqlite::SqliteStorage;

static KEYSPACE: &str = "c07";

async fn start_node() -> DatacakeNode {
    let addr = test_helper::get_unused_addr();
    DatacakeNodeBuilder::<DCAwareSelector>::new(
        1,
        ConnectionConfig::new(addr, addr, Vec::<String>::new()),
    )
    .connect()
    .await
    .expect("connect")
}

/// What a peer sees when it asks `node` for the timestamp of document `id`.
async fn replicated_ts(node: &DatacakeNode, id: u64) -> Option<HLCTimestamp> {
    let channel = node.network().get_or_connect(node.me().public_addr);
    let mut client =
        ReplicationClient::<SqliteStorage>::new(node.clock().clone(), channel);
    let (_, set) = client.get_state(KEYSPACE).await.expect("get state");
    set.get(&id).copied()
}

/// A peer (node 7) replicates one document to `node` through the consistency API.
async fn peer_put(node: &DatacakeNode, doc: Document) {
    let channel = node.network().get_or_connect(node.me().public_addr);
    let mut client =
        ConsistencyClient::<SqliteStorage>::new(node.clock().clone(), channel);
    client
        .put(KEYSPACE, doc, 7, "127.0.0.1:1".parse().unwrap())
        .await
        .expect("the put is acknowledged");
}

#[tokio::test]
async fn node_restarts_after_acknowledging_the_largest_timestamp() {
    let path = std::env::temp_dir().join(format!("c07-{}.db", uuid::Uuid::new_v4()));

    let node = start_node().await;
    let store = node
        .add_extension(EventuallyConsistentStoreExtension::new(
            SqliteStorage::open(&path).await.unwrap(),
        ))
        .await
        .expect("first start");

    // An ordinary document, and one carrying the largest timestamp there is.
    let ordinary = HLCTimestamp::new(Duration::from_secs(1_000), 0, 7);
    peer_put(&node, Document::new(1, ordinary, b"ordinary".to_vec())).await;
    peer_put(
        &node,
        Document::new(2, HLCTimestamp::from_u64(u64::MAX), b"max".to_vec()),
    )
    .await;
    assert_eq!(replicated_ts(&node, 1).await, Some(ordinary));
    assert_eq!(
        replicated_ts(&node, 2).await,
        Some(HLCTimestamp::from_u64(u64::MAX))
    );

    drop(store);
    node.shutdown().await;

    // Restart on the same storage.
    let node = start_node().await;
    let restarted = node
        .add_extension(EventuallyConsistentStoreExtension::new(
            SqliteStorage::open(&path).await.unwrap(),
        ))
        .await;
    let _ = std::fs::remove_file(&path);
    let _store = restarted.unwrap_or_else(|e| {
        panic!("C07 violated: the node cannot be started on its own storage any more: {e}")
    });
    assert_eq!(replicated_ts(&node, 1).await, Some(ordinary));
}

#[tokio::test]
async fn rebuilt_set_has_the_acknowledged_timestamps() {
    let path = std::env::temp_dir().join(format!("c07-{}.db", uuid::Uuid::new_v4()));

    let node = start_node().await;
    let store = node
        .add_extension(EventuallyConsistentStoreExtension::new(
            SqliteStorage::open(&path).await.unwrap(),
        ))
        .await
        .expect("first start");

    // seconds = 1000, fractional = 255, counter = 0, node = 7
    let acknowledged = HLCTimestamp::from_u64((1_000 << 32) | (255 << 24) | 7);
    peer_put(&node, Document::new(1, acknowledged, b"data".to_vec())).await;
    assert_eq!(replicated_ts(&node, 1).await, Some(acknowledged));

    drop(store);
    node.shutdown().await;

    let node = start_node().await;
    let _store = node
        .add_extension(EventuallyConsistentStoreExtension::new(
            SqliteStorage::open(&path).await.unwrap(),
        ))
        .await
        .expect("restart");
    let rebuilt = replicated_ts(&node, 1).await;
    let _ = std::fs::remove_file(&path);
    assert_eq!(
        rebuilt,
        Some(acknowledged),
        "C07 violated: acknowledged {acknowledged}, rebuilt {}",
        rebuilt.map(|ts| ts.to_string()).unwrap_or_default(),
    );
}
