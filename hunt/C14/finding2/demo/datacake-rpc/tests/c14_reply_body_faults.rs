//! C14 - "Under network faults an RPC answers correctly or fails; never twice or mixed".
//!
//! These tests drive the real (non simulated) transport of `datacake-rpc` - hyper over
//! TCP on the loopback - through a tiny byte-forwarding proxy which can inject the two
//! faults the property talks about *while the reply body is in flight*:
//!
//!  * `Fault::Hold`  - the link stops delivering bytes (a held link / a partition),
//!  * `Fault::Close` - the link is torn down (both sockets are closed).
//!
//! Only the public API of the crate is used and nothing outside of this file is changed.
use std::net::SocketAddr;
use std::sync::atomic::{AtomicI64, AtomicU8, AtomicUsize, Ordering};
use std::sync::Arc;
use std::time::{Duration, Instant};

use datacake_rpc::{
    Channel,
    ErrorCode,
    Handler,
    Request,
    RpcClient,
    RpcService,
    Server,
    ServiceRegistry,
    Status,
};
use rkyv::{Archive, Deserialize, Serialize};
use tokio::io::{AsyncReadExt, AsyncWriteExt};
use tokio::net::{TcpListener, TcpStream};

/// The timeout the client is configured with.
const CLIENT_TIMEOUT: Duration = Duration::from_millis(500);
/// How long the test is prepared to wait for the client before declaring that the
/// bound does not hold (12x the configured timeout).
const PATIENCE: Duration = Duration::from_secs(6);
/// The size of the reply of the handler.
const REPLY_SIZE: u32 = 4 << 20;
/// The number of reply bytes the proxy lets through before the fault strikes. The
/// response head (a few dozen bytes) is always within it, the body never is.
const BYTES_BEFORE_FAULT: i64 = 32 << 10;

#[repr(C)]
#[derive(Serialize, Deserialize, Archive, Debug)]
#[archive(check_bytes)]
#[archive_attr(derive(Debug))]
pub struct Fetch {
    id: u64,
    size: u32,
}

pub struct BlobService {
    calls: Arc<AtomicUsize>,
}

impl RpcService for BlobService {
    fn register_handlers(registry: &mut ServiceRegistry<Self>) {
        registry.add_handler::<Fetch>();
    }
}

#[datacake_rpc::async_trait]
impl Handler<Fetch> for BlobService {
    type Reply = Vec<u8>;

    async fn on_message(&self, msg: Request<Fetch>) -> Result<Self::Reply, Status> {
        self.calls.fetch_add(1, Ordering::SeqCst);
        let size: u32 = msg.size.into();
        let id: u64 = msg.id.into();
        Ok(vec![id as u8; size as usize])
    }
}

const FAULT_NONE: u8 = 0;
const FAULT_HOLD: u8 = 1;
const FAULT_CLOSE: u8 = 2;

#[derive(Clone)]
struct Faults {
    kind: Arc<AtomicU8>,
    /// Bytes of server -> client traffic which are still let through once armed.
    budget: Arc<AtomicI64>,
}

impl Faults {
    fn new() -> Self {
        Self {
            kind: Arc::new(AtomicU8::new(FAULT_NONE)),
            budget: Arc::new(AtomicI64::new(0)),
        }
    }

    fn arm(&self, kind: u8, budget: i64) {
        self.budget.store(budget, Ordering::SeqCst);
        self.kind.store(kind, Ordering::SeqCst);
    }
}

/// A byte forwarding proxy `listen -> upstream`.
async fn start_proxy(upstream: SocketAddr, faults: Faults) -> SocketAddr {
    let listener = TcpListener::bind("127.0.0.1:0").await.unwrap();
    let addr = listener.local_addr().unwrap();

    tokio::spawn(async move {
        loop {
            let (client, _) = listener.accept().await.unwrap();
            let server = TcpStream::connect(upstream).await.unwrap();
            client.set_nodelay(true).unwrap();
            server.set_nodelay(true).unwrap();
            tokio::spawn(forward(client, server, faults.clone()));
        }
    });

    addr
}

async fn forward(mut client: TcpStream, mut server: TcpStream, faults: Faults) {
    let mut up = vec![0u8; 16 << 10];
    let mut down = vec![0u8; 16 << 10];

    loop {
        tokio::select! {
            n = client.read(&mut up) => {
                let n = match n { Ok(0) | Err(_) => return, Ok(n) => n };
                if server.write_all(&up[..n]).await.is_err() {
                    return;
                }
            },
            n = server.read(&mut down) => {
                let n = match n { Ok(0) | Err(_) => return, Ok(n) => n };

                let kind = faults.kind.load(Ordering::SeqCst);
                let mut pass = n;
                if kind != FAULT_NONE {
                    let left = faults.budget.fetch_sub(n as i64, Ordering::SeqCst);
                    pass = left.clamp(0, n as i64) as usize;
                }

                if client.write_all(&down[..pass]).await.is_err() {
                    return;
                }

                if pass < n {
                    match kind {
                        // The link is held: nothing moves in either direction any more,
                        // but nobody is told either.
                        FAULT_HOLD => std::future::pending::<()>().await,
                        // The link is gone: both sockets are closed.
                        _ => return,
                    }
                }
            },
        }
    }
}

struct Setup {
    client: RpcClient<BlobService>,
    calls: Arc<AtomicUsize>,
    faults: Faults,
    server: Server,
}

async fn setup() -> Setup {
    let addr = test_helper::get_unused_addr();
    let calls = Arc::new(AtomicUsize::new(0));

    let server = Server::listen(addr).await.unwrap();
    server.add_service(BlobService {
        calls: calls.clone(),
    });

    let faults = Faults::new();
    let proxy = start_proxy(addr, faults.clone()).await;

    let mut client = RpcClient::<BlobService>::new(Channel::connect(proxy));
    client.set_timeout(CLIENT_TIMEOUT);

    // The connection is set up and works: a big reply goes through the proxy.
    let reply = client
        .send(&Fetch {
            id: 1,
            size: REPLY_SIZE,
        })
        .await
        .expect("no fault yet");
    assert_eq!(reply.len(), REPLY_SIZE as usize);
    assert!(reply.iter().all(|b| *b == 1));
    assert_eq!(calls.load(Ordering::SeqCst), 1);

    Setup {
        client,
        calls,
        faults,
        server,
    }
}

/// Finding 1: the link is held while the reply body is in flight.
///
/// The client is configured with a timeout of 500ms, so it must come back with the
/// reply or with `Timeout` (or a connection error) within that bound. It never comes
/// back at all.
#[tokio::test]
async fn held_link_during_reply_body_respects_the_timeout() {
    let s = setup().await;

    s.faults.arm(FAULT_HOLD, BYTES_BEFORE_FAULT);

    let start = Instant::now();
    let outcome = tokio::time::timeout(
        PATIENCE,
        s.client.send(&Fetch {
            id: 2,
            size: REPLY_SIZE,
        }),
    )
    .await;
    let took = start.elapsed();

    println!(
        "client timeout = {CLIENT_TIMEOUT:?}; the request was executed {} time(s); outcome after {took:?}: {:?}",
        s.calls.load(Ordering::SeqCst) - 1,
        outcome
            .as_ref()
            .map(|r| r.as_ref().map(|v| v.len()).map_err(|e| format!("{e}"))),
    );

    let result = outcome.unwrap_or_else(|_| {
        panic!(
            "C14 violated: a client configured with a {CLIENT_TIMEOUT:?} timeout had neither \
             an answer nor an error {PATIENCE:?} after it sent its request"
        )
    });

    // (not reached on the unmodified tree)
    match result {
        Ok(reply) => assert!(reply.iter().all(|b| *b == 2)),
        Err(e) => assert!(
            matches!(e.code, ErrorCode::Timeout | ErrorCode::ConnectionError),
            "{e:?}"
        ),
    }
    assert!(took <= CLIENT_TIMEOUT + Duration::from_millis(250));

    s.server.shutdown();
}

/// Finding 2: the link is torn down while the reply body is in flight.
///
/// The client must return the reply of the handler or a connection/timeout error.
/// It reports `InternalError`, the code of a failure *inside the remote handler*.
#[tokio::test]
async fn closed_link_during_reply_body_is_a_connection_error() {
    let s = setup().await;

    s.faults.arm(FAULT_CLOSE, BYTES_BEFORE_FAULT);

    let result = tokio::time::timeout(
        PATIENCE,
        s.client.send(&Fetch {
            id: 3,
            size: REPLY_SIZE,
        }),
    )
    .await
    .expect("the client comes back");

    let err = result.expect_err("the reply cannot have arrived");
    println!("error seen by the caller: {err:?}");

    assert!(
        matches!(err.code, ErrorCode::ConnectionError | ErrorCode::Timeout),
        "C14 violated: the connection was lost under the reply and the caller was told {:?} \
         ({:?}) instead of a connection/timeout error",
        err.code,
        err.message,
    );

    s.server.shutdown();
}
