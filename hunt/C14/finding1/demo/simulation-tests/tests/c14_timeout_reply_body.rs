//! C14 - "a client configured with a timeout gets an answer or a timeout error within
//! that bound", for all schedules of partition / hold events in the simulated network.
//!
//! Same harness as `tests/rpc.rs` (turmoil, the `simulation` feature of datacake-rpc),
//! only public API. The link latency is pinned to exactly 10ms so that the schedule is
//! the same in every run:
//!
//!   t =  0ms  the client sends the request                 (arrives at t = 10ms)
//!   t = 10ms  the handler runs, the server sends the response head and as much of the
//!             body as HTTP/2 flow control allows (64KiB)   (arrives at t = 20ms)
//!   t = 20ms  the client has the response head, asks for the rest of the body
//!
//! The fault strikes at `fault_at`. The client has a timeout of 2s.
use std::net::{IpAddr, Ipv4Addr, SocketAddr};
use std::sync::atomic::{AtomicUsize, Ordering};
use std::sync::{Arc, Mutex};
use std::time::Duration;

use datacake::rpc::{
    Channel,
    ErrorCode,
    Handler,
    Request,
    RpcClient,
    RpcService,
    Server,
    ServiceRegistry,
    Status,
};
use rkyv::{Archive, Deserialize, Serialize};
use turmoil::{lookup, Builder};

const PORT: u16 = 9999;
const LATENCY: Duration = Duration::from_millis(10);
const CLIENT_TIMEOUT: Duration = Duration::from_secs(2);
/// Simulated time the test is prepared to wait for the client (15x its timeout).
const PATIENCE: Duration = Duration::from_secs(30);
/// Bigger than the initial HTTP/2 window (65,535 bytes): the reply needs a second flight.
const REPLY_SIZE: u32 = 200_000;

#[derive(Clone, Copy, Debug)]
enum Fault {
    Hold,
    Partition,
}

#[derive(Debug, PartialEq)]
enum Outcome {
    Reply(usize),
    Error(ErrorCode),
    /// The client was still waiting when the test lost its patience.
    StillWaiting,
}

/// Runs one request with `fault` striking `fault_at` after the request was sent and
/// returns what the client got and after how much simulated time.
fn run(fault: Fault, fault_at: Duration) -> (Outcome, Duration, usize) {
    let mut sim = Builder::new()
        .min_message_latency(LATENCY)
        .max_message_latency(LATENCY)
        .simulation_duration(Duration::from_secs(120))
        .build();

    let calls = Arc::new(AtomicUsize::new(0));
    let calls_srv = calls.clone();
    sim.host("server", move || {
        let calls = calls_srv.clone();
        async move {
            let server = Server::listen(get_listen_addr()).await?;
            server.add_service(BlobService { calls });
            tokio::time::sleep(Duration::from_secs(1000)).await;
            Ok(())
        }
    });

    let result = Arc::new(Mutex::new(None));
    let result_tx = result.clone();
    sim.client("client", async move {
        let channel = Channel::connect(addr("server"));
        let mut client = RpcClient::<BlobService>::new(channel);
        client.set_timeout(CLIENT_TIMEOUT);

        // Set the connection up; the link works.
        let reply = client.send(&Fetch { id: 1, size: 100 }).await.unwrap();
        assert_eq!(reply.len(), 100);

        let start = tokio::time::Instant::now();
        let task = tokio::spawn(async move {
            let msg = Fetch {
                id: 2,
                size: REPLY_SIZE,
            };
            let outcome = match tokio::time::timeout(PATIENCE, client.send(&msg)).await {
                Ok(Ok(reply)) => Outcome::Reply(reply.len()),
                Ok(Err(e)) => Outcome::Error(e.code),
                Err(_) => Outcome::StillWaiting,
            };
            (outcome, start.elapsed())
        });

        tokio::time::sleep(fault_at).await;
        match fault {
            Fault::Hold => turmoil::hold("client", "server"),
            Fault::Partition => turmoil::partition("client", "server"),
        }

        *result_tx.lock().unwrap() = Some(task.await.unwrap());
        Ok(())
    });

    sim.run().unwrap();

    let (outcome, took) = result.lock().unwrap().take().unwrap();
    let calls = calls.load(Ordering::SeqCst) - 1;
    println!("{fault:?} at +{fault_at:?}: {outcome:?} after {took:?}, handler ran {calls}x");
    (outcome, took, calls)
}

fn check((outcome, took, calls): (Outcome, Duration, usize)) {
    assert!(calls <= 1);
    assert_ne!(
        outcome,
        Outcome::StillWaiting,
        "C14 violated: a client configured with a {CLIENT_TIMEOUT:?} timeout had neither an \
         answer nor an error {PATIENCE:?} (simulated) after it sent its request",
    );
    assert!(
        matches!(
            outcome,
            Outcome::Reply(_)
                | Outcome::Error(ErrorCode::Timeout)
                | Outcome::Error(ErrorCode::ConnectionError)
        ),
        "{outcome:?}"
    );
    assert!(took <= CLIENT_TIMEOUT + Duration::from_millis(50), "{took:?}");
}

#[test]
/// Control: the link is held while the *request* is on its way. The timeout works.
fn control_hold_before_the_response_head() {
    let res = run(Fault::Hold, Duration::from_millis(5));
    assert_eq!(res.0, Outcome::Error(ErrorCode::Timeout));
    check(res);
}

#[test]
/// The link is held right after the response head arrived, the body is incomplete.
fn hold_during_the_reply_body() {
    check(run(Fault::Hold, Duration::from_millis(15)));
}

#[test]
/// The link is partitioned right after the response head arrived, the body is incomplete.
fn partition_during_the_reply_body() {
    check(run(Fault::Partition, Duration::from_millis(15)));
}

fn get_listen_addr() -> SocketAddr {
    (IpAddr::from(Ipv4Addr::UNSPECIFIED), PORT).into()
}

fn addr(name: &str) -> SocketAddr {
    (lookup(name), PORT).into()
}

#[repr(C)]
#[derive(Serialize, Deserialize, Archive, PartialEq, Debug)]
#[archive(compare(PartialEq), check_bytes)]
#[archive_attr(derive(PartialEq, Debug))]
pub struct Fetch {
    id: u64,
    size: u32,
}

pub struct BlobService {
    calls: Arc<AtomicUsize>,
}

impl RpcService for BlobService {
    fn register_handlers(registry: &mut ServiceRegistry<Self>) {
        registry.add_handler::<Fetch>();
    }
}

#[datacake::rpc::async_trait]
impl Handler<Fetch> for BlobService {
    type Reply = Vec<u8>;

    async fn on_message(&self, msg: Request<Fetch>) -> Result<Self::Reply, Status> {
        self.calls.fetch_add(1, Ordering::SeqCst);
        let size: u32 = msg.size.into();
        let id: u64 = msg.id.into();
        Ok(vec![id as u8; size as usize])
    }
}
