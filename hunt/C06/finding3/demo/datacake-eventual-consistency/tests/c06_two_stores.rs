//! C06 demonstration: two `EventuallyConsistentStoreExtension`s with the same `Storage` type on
//! one node (say a "users" store and a "sessions" store, both `MemStore` / both SQLite).
//!
//! Both register a `ConsistencyService<S>` on the node's single RPC server, the service name is
//! the type name, so the second registration silently replaces the first. A write to the first
//! store at level `All` returns `Ok`, but on the peer it was written into the *second* store's
//! storage: the first store's storage on the peer - the replica the level promised - has nothing.

use std::time::Duration;

use datacake_eventual_consistency::test_utils::MemStore;
use datacake_eventual_consistency::EventuallyConsistentStoreExtension;
use datacake_node::{
    ConnectionConfig,
    Consistency,
    DCAwareSelector,
    DatacakeNode,
    DatacakeNodeBuilder,
};

const KEYSPACE: &str = "my-keyspace";

#[tokio::test(flavor = "multi_thread", worker_threads = 2)]
async fn write_to_first_store_reaches_first_store_of_the_peer() {
    let _ = tracing_subscriber::fmt::try_init();

    let [node_1, node_2] = connect_cluster().await;

    // Same order on both nodes: first the "users" store, then the "sessions" store.
    let users_1 = node_1
        .add_extension(EventuallyConsistentStoreExtension::new(MemStore::default()))
        .await
        .unwrap();
    let sessions_1 = node_1
        .add_extension(EventuallyConsistentStoreExtension::new(MemStore::default()))
        .await
        .unwrap();
    let users_2 = node_2
        .add_extension(EventuallyConsistentStoreExtension::new(MemStore::default()))
        .await
        .unwrap();
    let sessions_2 = node_2
        .add_extension(EventuallyConsistentStoreExtension::new(MemStore::default()))
        .await
        .unwrap();

    users_1
        .handle()
        .put(KEYSPACE, 1, b"a user".to_vec(), Consistency::All)
        .await
        .expect("put(All) into the users store");

    let on_issuer = users_1.handle().get(KEYSPACE, 1).await.unwrap();
    let on_peer = users_2.handle().get(KEYSPACE, 1).await.unwrap();
    let in_other_store_issuer = sessions_1.handle().get(KEYSPACE, 1).await.unwrap();
    let in_other_store_peer = sessions_2.handle().get(KEYSPACE, 1).await.unwrap();
    println!(
        "users@1: {} users@2: {} sessions@1: {} sessions@2: {}",
        on_issuer.is_some(),
        on_peer.is_some(),
        in_other_store_issuer.is_some(),
        in_other_store_peer.is_some(),
    );

    assert!(on_issuer.is_some(), "the issuer has its own write");
    assert!(
        on_peer.is_some(),
        "C06 violated: put(All) returned Ok but the peer's users store does not hold the \
         document (it went into the peer's sessions store: {})",
        in_other_store_peer.is_some(),
    );

    node_1.shutdown().await;
    node_2.shutdown().await;
}

async fn connect_cluster() -> [DatacakeNode; 2] {
    let addr_1 = test_helper::get_unused_addr();
    let addr_2 = test_helper::get_unused_addr();

    let node_1 = DatacakeNodeBuilder::<DCAwareSelector>::new(
        1,
        ConnectionConfig::new(addr_1, addr_1, [addr_2.to_string()]),
    )
    .connect()
    .await
    .unwrap();
    let node_2 = DatacakeNodeBuilder::<DCAwareSelector>::new(
        2,
        ConnectionConfig::new(addr_2, addr_2, [addr_1.to_string()]),
    )
    .connect()
    .await
    .unwrap();

    node_1
        .wait_for_nodes(&[2], Duration::from_secs(60))
        .await
        .expect("Nodes should connect within timeout.");
    node_2
        .wait_for_nodes(&[1], Duration::from_secs(60))
        .await
        .expect("Nodes should connect within timeout.");
    // Let the node selectors catch up with the membership.
    tokio::time::sleep(Duration::from_millis(500)).await;

    [node_1, node_2]
}
