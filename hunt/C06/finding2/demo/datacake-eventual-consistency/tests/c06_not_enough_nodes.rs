//! C06 demonstration: when the consistency level needs more replicas than there are live peers,
//! the call returns `StoreError::ConsistencyError` (documented as "The operation succeeded on the
//! local node but failed to meet the required consistency level") -- yet nothing was written on
//! the local node and nothing is ever replicated.
//!
//! The property: "If fewer acknowledged, the call returns a consistency error stating how many
//! did, and the local write is still in place and still replicated later."
//!
//! Healthy two node cluster, `MemStore`, public API only. Level `Two` needs two other replicas,
//! one exists.

use std::time::Duration;

use datacake_eventual_consistency::test_utils::MemStore;
use datacake_eventual_consistency::{EventuallyConsistentStoreExtension, StoreError};
use datacake_node::{
    ConnectionConfig,
    Consistency,
    DCAwareSelector,
    DatacakeNode,
    DatacakeNodeBuilder,
};

const KEYSPACE: &str = "my-keyspace";

#[tokio::test(flavor = "multi_thread", worker_threads = 2)]
async fn consistency_error_leaves_the_local_write_in_place() {
    let _ = tracing_subscriber::fmt::try_init();

    let [node_1, node_2] = connect_cluster().await;
    let store_1 = node_1
        .add_extension(EventuallyConsistentStoreExtension::new(MemStore::default()))
        .await
        .unwrap();
    let store_2 = node_2
        .add_extension(EventuallyConsistentStoreExtension::new(MemStore::default()))
        .await
        .unwrap();
    let handle_1 = store_1.handle();
    let handle_2 = store_2.handle();

    // Control: level One can be met and behaves.
    handle_1
        .put(KEYSPACE, 100, b"control".to_vec(), Consistency::One)
        .await
        .expect("put(One) on a two node cluster");
    assert!(handle_2.get(KEYSPACE, 100).await.unwrap().is_some());
    // Documents which the deletes below are going to target.
    handle_1
        .put_many(
            KEYSPACE,
            [(3u64, b"to delete".to_vec()), (4u64, b"to delete".to_vec())],
            Consistency::All,
        )
        .await
        .expect("put_many(All)");

    let mut violations = Vec::new();

    // ---- put
    let res = handle_1
        .put(KEYSPACE, 1, b"put".to_vec(), Consistency::Two)
        .await;
    assert_consistency_error("put", &res);
    // ---- put_many
    let res = handle_1
        .put_many(KEYSPACE, [(2u64, b"put_many".to_vec())], Consistency::Two)
        .await;
    assert_consistency_error("put_many", &res);
    // ---- del
    let res = handle_1.del(KEYSPACE, 3, Consistency::Two).await;
    assert_consistency_error("del", &res);
    // ---- del_many
    let res = handle_1.del_many(KEYSPACE, [4u64], Consistency::Two).await;
    assert_consistency_error("del_many", &res);

    // "... and the local write is still in place ..."
    if handle_1.get(KEYSPACE, 1).await.unwrap().is_none() {
        violations.push("put: document 1 is not in the issuer's storage");
    }
    if handle_1.get(KEYSPACE, 2).await.unwrap().is_none() {
        violations.push("put_many: document 2 is not in the issuer's storage");
    }
    if handle_1.get(KEYSPACE, 3).await.unwrap().is_some() {
        violations.push("del: document 3 is still live in the issuer's storage");
    }
    if handle_1.get(KEYSPACE, 4).await.unwrap().is_some() {
        violations.push("del_many: document 4 is still live in the issuer's storage");
    }

    // "... and still replicated later." (batch interval 1s, repair interval 1s with test-utils)
    tokio::time::sleep(Duration::from_secs(5)).await;
    if handle_2.get(KEYSPACE, 1).await.unwrap().is_none() {
        violations.push("put: document 1 never reached the peer");
    }
    if handle_2.get(KEYSPACE, 2).await.unwrap().is_none() {
        violations.push("put_many: document 2 never reached the peer");
    }
    if handle_2.get(KEYSPACE, 3).await.unwrap().is_some() {
        violations.push("del: document 3 is still live on the peer");
    }
    if handle_2.get(KEYSPACE, 4).await.unwrap().is_some() {
        violations.push("del_many: document 4 is still live on the peer");
    }

    assert!(
        violations.is_empty(),
        "C06 violated: the call returned StoreError::ConsistencyError (\"The operation succeeded \
         on the local node but failed to meet the required consistency level\") but:\n  - {}",
        violations.join("\n  - ")
    );

    node_1.shutdown().await;
    node_2.shutdown().await;
}

fn assert_consistency_error<E: std::error::Error + Send + 'static>(
    op: &str,
    res: &Result<(), StoreError<E>>,
) {
    match res {
        Err(StoreError::ConsistencyError(e)) => {
            println!("{op}(Two) returned the consistency error: {e:?}");
        },
        other => panic!("{op}(Two): expected a consistency error, got {other:?}"),
    }
}

async fn connect_cluster() -> [DatacakeNode; 2] {
    let addr_1 = test_helper::get_unused_addr();
    let addr_2 = test_helper::get_unused_addr();

    let node_1 = DatacakeNodeBuilder::<DCAwareSelector>::new(
        1,
        ConnectionConfig::new(addr_1, addr_1, [addr_2.to_string()]),
    )
    .connect()
    .await
    .unwrap();
    let node_2 = DatacakeNodeBuilder::<DCAwareSelector>::new(
        2,
        ConnectionConfig::new(addr_2, addr_2, [addr_1.to_string()]),
    )
    .connect()
    .await
    .unwrap();

    node_1
        .wait_for_nodes(&[2], Duration::from_secs(60))
        .await
        .expect("Nodes should connect within timeout.");
    node_2
        .wait_for_nodes(&[1], Duration::from_secs(60))
        .await
        .expect("Nodes should connect within timeout.");
    // Let the node selectors catch up with the membership.
    tokio::time::sleep(Duration::from_millis(500)).await;

    [node_1, node_2]
}
