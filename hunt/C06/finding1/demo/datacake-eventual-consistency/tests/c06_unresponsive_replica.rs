//! C06 demonstration: a replica which does not acknowledge *by not answering* (as opposed to
//! answering with an error) makes `put` / `del` / `put_many` / `del_many` wait forever.
//!
//! The property says: "If fewer acknowledged, the call returns a consistency error stating how
//! many did, and the local write is still in place and still replicated later."
//! `StoreError::ConsistencyError` is documented as "failed to meet the required consistency level
//! within the timeout period. (2 seconds)" and `ConsistencyFailure` even carries `timeout: TIMEOUT`
//! (2s) and prints "before the timeout (2s) elapsed" -- but no timeout is applied anywhere.
//!
//! Fault injection: a `Storage` wrapper (same type on every node) whose mutating calls never
//! complete on the chosen node once its `stall` flag is raised (a wedged disk / a frozen process).
//! Everything else is the real code through the public API.

use std::sync::atomic::{AtomicBool, Ordering};
use std::sync::Arc;
use std::time::Duration;

use datacake_crdt::{HLCTimestamp, Key};
use datacake_eventual_consistency::test_utils::{MemStore, MemStoreError};
use datacake_eventual_consistency::{
    BulkMutationError,
    Document,
    DocumentMetadata,
    EventuallyConsistentStoreExtension,
    Storage,
    StoreError,
};
use datacake_node::{
    ConnectionConfig,
    Consistency,
    ConsistencyError,
    DCAwareSelector,
    DatacakeNode,
    DatacakeNodeBuilder,
};

/// How the chosen replica misbehaves.
#[derive(Default)]
struct Fault {
    /// Mutations return an error (the replica answers, negatively).
    fail: AtomicBool,
    /// Mutations never complete (the replica does not answer).
    stall: AtomicBool,
}

#[derive(Default)]
struct FaultyStore {
    inner: MemStore,
    fault: Arc<Fault>,
}

impl FaultyStore {
    async fn gate(&self) -> Result<(), MemStoreError> {
        if self.fault.stall.load(Ordering::SeqCst) {
            futures::future::pending::<()>().await;
        }
        if self.fault.fail.load(Ordering::SeqCst) {
            return Err(MemStoreError(anyhow::anyhow!("injected storage failure")));
        }
        Ok(())
    }
}

#[async_trait::async_trait]
impl Storage for FaultyStore {
    type Error = MemStoreError;
    type DocsIter = <MemStore as Storage>::DocsIter;
    type MetadataIter = <MemStore as Storage>::MetadataIter;

    async fn get_keyspace_list(&self) -> Result<Vec<String>, Self::Error> {
        self.inner.get_keyspace_list().await
    }

    async fn iter_metadata(
        &self,
        keyspace: &str,
    ) -> Result<Self::MetadataIter, Self::Error> {
        self.inner.iter_metadata(keyspace).await
    }

    async fn remove_tombstones(
        &self,
        keyspace: &str,
        keys: impl Iterator<Item = Key> + Send,
    ) -> Result<(), BulkMutationError<Self::Error>> {
        self.inner.remove_tombstones(keyspace, keys).await
    }

    async fn put(&self, keyspace: &str, document: Document) -> Result<(), Self::Error> {
        self.gate().await?;
        self.inner.put(keyspace, document).await
    }

    async fn multi_put(
        &self,
        keyspace: &str,
        documents: impl Iterator<Item = Document> + Send,
    ) -> Result<(), BulkMutationError<Self::Error>> {
        self.gate()
            .await
            .map_err(BulkMutationError::empty_with_error)?;
        self.inner.multi_put(keyspace, documents).await
    }

    async fn mark_as_tombstone(
        &self,
        keyspace: &str,
        doc_id: Key,
        timestamp: HLCTimestamp,
    ) -> Result<(), Self::Error> {
        self.gate().await?;
        self.inner
            .mark_as_tombstone(keyspace, doc_id, timestamp)
            .await
    }

    async fn mark_many_as_tombstone(
        &self,
        keyspace: &str,
        documents: impl Iterator<Item = DocumentMetadata> + Send,
    ) -> Result<(), BulkMutationError<Self::Error>> {
        self.gate()
            .await
            .map_err(BulkMutationError::empty_with_error)?;
        self.inner.mark_many_as_tombstone(keyspace, documents).await
    }

    async fn get(
        &self,
        keyspace: &str,
        doc_id: Key,
    ) -> Result<Option<Document>, Self::Error> {
        self.inner.get(keyspace, doc_id).await
    }

    async fn multi_get(
        &self,
        keyspace: &str,
        doc_ids: impl Iterator<Item = Key> + Send,
    ) -> Result<Self::DocsIter, Self::Error> {
        self.inner.multi_get(keyspace, doc_ids).await
    }
}

const KEYSPACE: &str = "my-keyspace";

/// Five times the documented 2 second timeout.
const PATIENCE: Duration = Duration::from_secs(10);

#[tokio::test(flavor = "multi_thread", worker_threads = 2)]
async fn write_returns_a_consistency_error_when_a_replica_does_not_answer() {
    let _ = tracing_subscriber::fmt::try_init();

    let [node_1, node_2, node_3] = connect_cluster().await;

    let fault_3 = Arc::new(Fault::default());
    let store_1 = node_1
        .add_extension(EventuallyConsistentStoreExtension::new(
            FaultyStore::default(),
        ))
        .await
        .unwrap();
    let store_2 = node_2
        .add_extension(EventuallyConsistentStoreExtension::new(
            FaultyStore::default(),
        ))
        .await
        .unwrap();
    let store_3 = node_3
        .add_extension(EventuallyConsistentStoreExtension::new(FaultyStore {
            inner: MemStore::default(),
            fault: fault_3.clone(),
        }))
        .await
        .unwrap();

    let handle_1 = store_1.handle();
    let handle_2 = store_2.handle();
    let handle_3 = store_3.handle();

    // Control 1: healthy cluster, All succeeds and the document is everywhere.
    handle_1
        .put(KEYSPACE, 1, b"healthy".to_vec(), Consistency::All)
        .await
        .expect("healthy cluster: put(All) succeeds");
    for handle in [&handle_1, &handle_2, &handle_3] {
        assert!(handle.get(KEYSPACE, 1).await.unwrap().is_some());
    }

    // Control 2: replica 3 answers with an error -> prompt consistency error, "1 of 2".
    fault_3.fail.store(true, Ordering::SeqCst);
    let res = tokio::time::timeout(
        PATIENCE,
        handle_1.put(KEYSPACE, 2, b"replica errors".to_vec(), Consistency::All),
    )
    .await
    .expect("an erroring replica is reported promptly");
    match res {
        Err(StoreError::ConsistencyError(ConsistencyError::ConsistencyFailure {
            responses,
            required,
            ..
        })) => assert_eq!((responses, required), (1, 2)),
        other => panic!("expected ConsistencyFailure(1 of 2), got {other:?}"),
    }
    assert!(handle_1.get(KEYSPACE, 2).await.unwrap().is_some());
    fault_3.fail.store(false, Ordering::SeqCst);

    // The fault under study: replica 3 does not answer at all.
    fault_3.stall.store(true, Ordering::SeqCst);

    let res = tokio::time::timeout(
        PATIENCE,
        handle_1.put(KEYSPACE, 3, b"replica silent".to_vec(), Consistency::All),
    )
    .await;

    // The local write and the write on the healthy replica are done long before that.
    assert!(handle_1.get(KEYSPACE, 3).await.unwrap().is_some());
    assert!(handle_2.get(KEYSPACE, 3).await.unwrap().is_some());

    let res = res.unwrap_or_else(|_| {
        panic!(
            "C06 violated: replica 3 did not acknowledge, 1 of 2 replicas did, but put(All) \
             neither returned Ok nor the promised consistency error within {PATIENCE:?} \
             (the error type advertises a 2s timeout) - the call waits forever"
        )
    });
    match res {
        Err(StoreError::ConsistencyError(ConsistencyError::ConsistencyFailure {
            responses,
            required,
            ..
        })) => assert_eq!((responses, required), (1, 2)),
        other => panic!("expected ConsistencyFailure(1 of 2), got {other:?}"),
    }

    node_1.shutdown().await;
    node_2.shutdown().await;
    node_3.shutdown().await;
}

/// The same fault without any custom `Storage`: every node uses the stock `MemStore`, replica 3
/// lives on its own (single threaded) runtime and that thread is frozen for a while, which is
/// what a SIGSTOP, a long VM / GC pause or a black-holed established connection look like to
/// the issuer: the TCP connection stays up, the request is never answered.
#[tokio::test(flavor = "multi_thread", worker_threads = 2)]
async fn write_returns_a_consistency_error_when_a_replica_process_is_frozen() {
    let _ = tracing_subscriber::fmt::try_init();

    let addrs = [
        test_helper::get_unused_addr(),
        test_helper::get_unused_addr(),
        test_helper::get_unused_addr(),
    ];
    let seeds_of = |me: usize| {
        addrs
            .iter()
            .enumerate()
            .filter(|(i, _)| *i != me)
            .map(|(_, addr)| addr.to_string())
            .collect::<Vec<_>>()
    };

    // Replica 3: its own OS thread and current-thread runtime.
    let (ready_tx, ready_rx) = tokio::sync::oneshot::channel::<()>();
    let (freeze_tx, freeze_rx) = tokio::sync::oneshot::channel::<Duration>();
    let cfg_3 = ConnectionConfig::new(addrs[2], addrs[2], seeds_of(2));
    let replica_3 = std::thread::spawn(move || {
        let rt = tokio::runtime::Builder::new_current_thread()
            .enable_all()
            .build()
            .unwrap();
        rt.block_on(async move {
            let node_3 = DatacakeNodeBuilder::<DCAwareSelector>::new(3, cfg_3)
                .connect()
                .await
                .unwrap();
            let _store_3 = node_3
                .add_extension(EventuallyConsistentStoreExtension::new(
                    MemStore::default(),
                ))
                .await
                .unwrap();
            node_3
                .wait_for_nodes(&[1, 2], Duration::from_secs(60))
                .await
                .unwrap();
            let _ = ready_tx.send(());
            if let Ok(how_long) = freeze_rx.await {
                // The whole "process" stops making progress.
                std::thread::sleep(how_long);
            }
            node_3.shutdown().await;
        });
    });

    let node_1 = DatacakeNodeBuilder::<DCAwareSelector>::new(
        1,
        ConnectionConfig::new(addrs[0], addrs[0], seeds_of(0)),
    )
    .connect()
    .await
    .unwrap();
    let node_2 = DatacakeNodeBuilder::<DCAwareSelector>::new(
        2,
        ConnectionConfig::new(addrs[1], addrs[1], seeds_of(1)),
    )
    .connect()
    .await
    .unwrap();
    let store_1 = node_1
        .add_extension(EventuallyConsistentStoreExtension::new(MemStore::default()))
        .await
        .unwrap();
    let store_2 = node_2
        .add_extension(EventuallyConsistentStoreExtension::new(MemStore::default()))
        .await
        .unwrap();
    node_1
        .wait_for_nodes(&[2, 3], Duration::from_secs(60))
        .await
        .unwrap();
    node_2
        .wait_for_nodes(&[1, 3], Duration::from_secs(60))
        .await
        .unwrap();
    ready_rx.await.unwrap();
    tokio::time::sleep(Duration::from_millis(500)).await;

    let handle_1 = store_1.handle();
    let handle_2 = store_2.handle();

    // Control: healthy cluster (this also establishes the connection 1 -> 3).
    handle_1
        .put(KEYSPACE, 1, b"healthy".to_vec(), Consistency::All)
        .await
        .expect("healthy cluster: put(All) succeeds");

    // Freeze replica 3 for three times our patience.
    freeze_tx.send(PATIENCE * 3).unwrap();
    tokio::time::sleep(Duration::from_millis(300)).await;

    let res = tokio::time::timeout(
        PATIENCE,
        handle_1.put(KEYSPACE, 2, b"replica frozen".to_vec(), Consistency::All),
    )
    .await;

    assert!(handle_1.get(KEYSPACE, 2).await.unwrap().is_some());
    assert!(handle_2.get(KEYSPACE, 2).await.unwrap().is_some());

    let res = res.unwrap_or_else(|_| {
        panic!(
            "C06 violated: replica 3 is frozen and did not acknowledge, 1 of 2 replicas did, but \
             put(All) neither returned Ok nor the promised consistency error within {PATIENCE:?} \
             (the error type advertises a 2s timeout)"
        )
    });
    match res {
        Err(StoreError::ConsistencyError(ConsistencyError::ConsistencyFailure {
            responses,
            required,
            ..
        })) => assert_eq!((responses, required), (1, 2)),
        other => panic!("expected ConsistencyFailure(1 of 2), got {other:?}"),
    }

    node_1.shutdown().await;
    node_2.shutdown().await;
    let _ = replica_3.join();
}

async fn connect_cluster() -> [DatacakeNode; 3] {
    let addrs = [
        test_helper::get_unused_addr(),
        test_helper::get_unused_addr(),
        test_helper::get_unused_addr(),
    ];

    let mut nodes = Vec::new();
    for (i, addr) in addrs.iter().enumerate() {
        let seeds = addrs
            .iter()
            .filter(|other| *other != addr)
            .map(|addr| addr.to_string())
            .collect::<Vec<_>>();
        let cfg = ConnectionConfig::new(*addr, *addr, seeds);
        let node = DatacakeNodeBuilder::<DCAwareSelector>::new(i as u8 + 1, cfg)
            .connect()
            .await
            .unwrap();
        nodes.push(node);
    }

    for (i, node) in nodes.iter().enumerate() {
        let others = (1..=3u8).filter(|id| *id != i as u8 + 1).collect::<Vec<_>>();
        node.wait_for_nodes(&others, Duration::from_secs(60))
            .await
            .expect("Nodes should connect within timeout.");
    }
    // Let the node selectors catch up with the membership.
    tokio::time::sleep(Duration::from_millis(500)).await;

    nodes.try_into().map_err(|_| ()).unwrap()
}
