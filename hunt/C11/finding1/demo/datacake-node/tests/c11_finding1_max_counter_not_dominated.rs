//! C11 finding 1: a registered remote stamp whose counter is `u16::MAX` is not dominated.
//!
//! Everything here goes through the public API only:
//! `datacake_node::Clock::{new, register_ts, get_time}` and `datacake_crdt::HLCTimestamp::new`.

use std::collections::HashSet;
use std::sync::atomic::{AtomicI64, Ordering};
use std::sync::Arc;
use std::time::Duration;

use datacake_crdt::HLCTimestamp;
use datacake_node::Clock;

/// A drift that is far inside the allowed one (`MAX_CLOCK_DRIFT` is 4 100 s).
const SMALL_DRIFT: Duration = Duration::from_secs(50);

/// Control: the property holds for a remote stamp whose counter is two below the maximum.
#[tokio::test]
async fn control_remote_with_counter_max_minus_two_is_dominated() {
    let clock = Clock::new(1);
    let before = clock.get_time().await;

    let remote =
        HLCTimestamp::new(before.datacake_timestamp() + SMALL_DRIFT, u16::MAX - 2, 2);
    clock.register_ts(remote).await;

    let after = clock.get_time().await;
    assert!(after > remote, "after = {after}, remote = {remote}");
    assert_eq!(after.counter(), u16::MAX);
}


/// FINDING 1 (minimal form).
///
/// A remote stamp 50 s ahead (the allowed drift is 4 100 s) whose counter is `u16::MAX` is
/// registered; the stamp requested afterwards is NOT greater than it.
#[tokio::test]
async fn finding1_remote_with_max_counter_is_not_dominated() {
    let clock = Clock::new(1);
    let before = clock.get_time().await;

    let remote = HLCTimestamp::new(before.datacake_timestamp() + SMALL_DRIFT, u16::MAX, 2);
    clock.register_ts(remote).await;

    let after = clock.get_time().await;
    assert!(
        after > remote,
        "a stamp requested after register_ts(remote) must be greater than remote, \
         but after = {after} <= remote = {remote} (remote is only {SMALL_DRIFT:?} ahead)",
    );
}


/// Pulls `total` stamps from `clock` with `tasks` concurrent tasks; returns them per task.
async fn pull_concurrently(
    clock: &Clock,
    tasks: usize,
    total: i64,
) -> Vec<Vec<HLCTimestamp>> {
    let remaining = Arc::new(AtomicI64::new(total));
    let mut handles = Vec::new();
    for _ in 0..tasks {
        let clock = clock.clone();
        let remaining = remaining.clone();
        handles.push(tokio::spawn(async move {
            let mut mine = Vec::new();
            while remaining.fetch_sub(1, Ordering::SeqCst) > 0 {
                mine.push(clock.get_time().await);
            }
            mine
        }));
    }

    let mut out = Vec::new();
    for handle in handles {
        out.push(handle.await.expect("a task asking the clock for stamps panicked"));
    }
    out
}


/// FINDING 1 (end to end form, no hand made counter).
///
/// Three nodes. Node 3 runs 50 s fast and its stamp reaches node 2. Node 2 is busy: eight
/// tasks take 65 534 stamps from its clock (this takes well under the 50 s, so the
/// logical time of node 2 stays where node 3 put it and only the counter moves; the
/// actor's backpressure, a 1 ms sleep, cannot help because the wall clock needs 50 s to
/// catch up). The last stamp node 2 hands out therefore has counter `u16::MAX`. That
/// perfectly legal stamp is then delivered to node 1, which requests a stamp afterwards.
#[tokio::test(flavor = "multi_thread", worker_threads = 4)]
async fn finding1_end_to_end_stamp_from_a_busy_peer_is_not_dominated() {
    let node_1 = Clock::new(1);
    let node_2 = Clock::new(2);

    let fast_peer = HLCTimestamp::new(
        HLCTimestamp::now(0, 3).datacake_timestamp() + SMALL_DRIFT,
        0,
        3,
    );
    node_2.register_ts(fast_peer).await;

    // After the register the clock of node 2 is (T, 1); 65 534 requests take it to (T, 65 535).
    let per_task = pull_concurrently(&node_2, 8, 65_534).await;

    // The first two clauses of the property do hold on node 2.
    let mut all = HashSet::new();
    for mine in &per_task {
        assert!(mine.windows(2).all(|w| w[0] < w[1]), "a task saw a regression");
        for ts in mine {
            assert!(all.insert(*ts), "duplicate stamp {ts}");
            assert!(*ts > fast_peer);
        }
    }
    assert_eq!(all.len(), 65_534);

    let newest_of_node_2 = *all.iter().max().unwrap();
    assert_eq!(newest_of_node_2.node(), 2);

    // Node 2 sends it to node 1 (this is what every RPC of the replication layer does).
    node_1.register_ts(newest_of_node_2).await;
    let after = node_1.get_time().await;

    assert!(
        after > newest_of_node_2,
        "node 1 registered the stamp {newest_of_node_2} handed out by node 2's clock, \
         yet the stamp it produced afterwards is {after}",
    );
}
