//! C11 finding 2: the clock actor panics (and stays dead) when the counter would overflow.
//!
//! Everything here goes through the public API only:
//! `datacake_node::Clock::{new, register_ts, get_time}` and `datacake_crdt::HLCTimestamp::new`.

use std::sync::atomic::{AtomicI64, Ordering};
use std::sync::Arc;
use std::time::Duration;

use datacake_crdt::HLCTimestamp;
use datacake_node::Clock;

/// A drift that is far inside the allowed one (`MAX_CLOCK_DRIFT` is 4 100 s).
const SMALL_DRIFT: Duration = Duration::from_secs(50);

/// FINDING 2 (minimal form).
///
/// A remote stamp 50 s ahead whose counter is `u16::MAX - 1` is registered. The next
/// `get_time` does not return a stamp at all: the clock actor panics and takes the caller,
/// and every later user of the node's clock, with it.
#[tokio::test]
async fn finding2_remote_with_counter_max_minus_one_kills_the_clock() {
    let clock = Clock::new(1);
    let before = clock.get_time().await;

    let remote =
        HLCTimestamp::new(before.datacake_timestamp() + SMALL_DRIFT, u16::MAX - 1, 2);
    clock.register_ts(remote).await;

    let first = {
        let clock = clock.clone();
        tokio::spawn(async move { clock.get_time().await }).await
    };
    let second = {
        let clock = clock.clone();
        tokio::spawn(async move { clock.get_time().await }).await
    };

    assert!(
        matches!(first, Ok(ts) if ts > remote) && matches!(second, Ok(ts) if ts > remote),
        "stamps requested after register_ts({remote}) must be greater than it, \
         but the requests ended as: first = {first:?}, second = {second:?}",
    );
}


/// FINDING 2.
///
/// One remote stamp 50 s ahead is registered and then eight tasks request 65 535 stamps
/// (one more than above). Instead of returning stamps greater than the remote one the
/// clock actor panics (`Clock counter should not overflow`), every task that is using the
/// clock panics with it, and the clock of the node is dead for good.
#[tokio::test(flavor = "multi_thread", worker_threads = 4)]
async fn finding2_clock_actor_dies_while_logical_time_is_ahead() {
    let clock = Clock::new(1);

    let remote = HLCTimestamp::new(
        HLCTimestamp::now(0, 2).datacake_timestamp() + SMALL_DRIFT,
        0,
        2,
    );
    clock.register_ts(remote).await;

    let remaining = Arc::new(AtomicI64::new(65_535));
    let mut handles = Vec::new();
    for _ in 0..8 {
        let clock = clock.clone();
        let remaining = remaining.clone();
        handles.push(tokio::spawn(async move {
            let mut n = 0usize;
            while remaining.fetch_sub(1, Ordering::SeqCst) > 0 {
                let ts = clock.get_time().await;
                assert!(ts > remote);
                n += 1;
            }
            n
        }));
    }

    let mut answered = 0usize;
    let mut panicked = 0usize;
    for handle in handles {
        match handle.await {
            Ok(n) => answered += n,
            Err(_) => panicked += 1,
        }
    }

    // Is the clock still usable by anybody?
    let probe = {
        let clock = clock.clone();
        tokio::spawn(async move { clock.get_time().await }).await
    };

    assert!(
        panicked == 0 && probe.is_ok(),
        "{panicked} of 8 tasks panicked inside Clock::get_time (stamps answered to the \
         surviving tasks: {answered} of 65535); a fresh get_time afterwards: {}",
        match &probe {
            Ok(ts) => format!("ok {ts}"),
            Err(e) => format!("PANICKED ({e})"),
        },
    );
}
