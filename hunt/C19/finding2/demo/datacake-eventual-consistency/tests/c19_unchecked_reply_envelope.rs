//! C19: "a state that cannot be decoded is reported as an error rather than used."
//!
//! `ReplicationClient::get_state` validates the *nested* state archive, but the reply that
//! carries it (`KeyspaceOrSwotSet { timestamp, last_updated, set }`) is only ever looked at
//! through `DataView::using`, which checks a CRC32 and then calls the unchecked
//! `rkyv::archived_root`. The relative pointer and the length of `set` are therefore trusted
//! as they come off the wire, and `get_state` copies `set.len()` bytes from wherever they
//! point to (`aligned.extend_from_slice(&inner.set)`).
//!
//! The peer below answers `GetState` with the reply an honest peer would send for its state,
//! with one field altered: the declared length of the state (1 GiB instead of the real
//! length); the CRC32 trailer is the correct one for the bytes sent. The state of such a
//! reply cannot be decoded (it is declared to extend far beyond the end of the message), so
//! the property wants an `Err`. The unmodified client instead reads past the end of its
//! receive buffer until the process is killed by SIGSEGV.
//!
//! The client runs in a child process (this same test binary, re-executed) so that the
//! failure is reported as an ordinary assertion failure instead of taking the harness down.
#![cfg(all(feature = "verif", feature = "test-utils"))]

use std::marker::PhantomData;
use std::process::Command;

use datacake_crdt::{HLCTimestamp, OrSWotSet};
use datacake_eventual_consistency::test_utils::MemStore;
use datacake_eventual_consistency::verif::{
    GetState,
    KeyspaceGroup,
    KeyspaceOrSwotSet,
    ReplicationClient,
    ReplicationService,
    Serialize,
    Set,
    READ_REPAIR_SOURCE_ID,
};
use datacake_eventual_consistency::Document;
use datacake_node::Clock;
use datacake_rpc::{
    Body,
    Channel,
    Handler,
    Request,
    RpcService,
    Server,
    ServiceRegistry,
    Status,
};

const KEYSPACE: &str = "c19-keyspace";
const CHILD_ENV: &str = "C19_ENVELOPE_CHILD";

/// A peer which answers `GetState` on the very path of `ReplicationService<MemStore>` with
/// a fixed body.
struct ScriptedPeer {
    reply: Vec<u8>,
}

impl RpcService for ScriptedPeer {
    fn service_name() -> &'static str {
        <ReplicationService<MemStore> as RpcService>::service_name()
    }

    fn register_handlers(registry: &mut ServiceRegistry<Self>) {
        registry.add_handler::<GetState>();
    }
}

#[datacake_rpc::async_trait]
impl Handler<GetState> for ScriptedPeer {
    type Reply = Body;

    async fn on_message(&self, _msg: Request<GetState>) -> Result<Self::Reply, Status> {
        Ok(Body::from(self.reply.clone()))
    }
}

/// The exact bytes an honest peer holding three live documents sends.
async fn honest_reply() -> Vec<u8> {
    let group = KeyspaceGroup::<MemStore>::new_for_test().await;
    let clock = group.clock().clone();
    let keyspace = group.get_or_create_keyspace(KEYSPACE).await;
    for id in 1..=3u64 {
        keyspace
            .send(Set {
                source: READ_REPAIR_SOURCE_ID,
                doc: Document::new(id, clock.get_time().await, Vec::new()),
                ctx: None,
                _marker: PhantomData::<MemStore>,
            })
            .await
            .unwrap();
    }
    let set = keyspace.send(Serialize).await.unwrap();

    let reply = KeyspaceOrSwotSet {
        timestamp: clock.get_time().await,
        last_updated: clock.get_time().await,
        set,
    };
    datacake_rpc::to_view_bytes(&reply).unwrap().to_vec()
}

/// Replaces the declared length of `set` and recomputes the CRC32 trailer.
///
/// Layout of the end of the reply (`#[repr(C)]`, rkyv `strict` + `size_32`):
/// `.. | timestamp: u64 | last_updated: u64 | set.ptr: i32 | set.len: u32 | crc32: u32`.
fn with_declared_len(mut reply: Vec<u8>, len: u32) -> Vec<u8> {
    let end = reply.len();
    reply[end - 8..end - 4].copy_from_slice(&len.to_le_bytes());
    let crc = crc32fast::hash(&reply[..end - 4]);
    reply[end - 4..].copy_from_slice(&crc.to_le_bytes());
    reply
}

async fn ask(reply: Vec<u8>) -> Result<(HLCTimestamp, OrSWotSet<2>), Status> {
    let addr = test_helper::get_unused_addr();
    let server = Server::listen(addr).await.unwrap();
    server.add_service(ScriptedPeer { reply });

    let mut client =
        ReplicationClient::<MemStore>::new(Clock::new(7), Channel::connect(addr));
    let res = client.get_state(KEYSPACE).await;
    server.shutdown();
    res
}

/// Control: the scripted peer is a faithful stand-in. The unaltered reply is accepted and
/// a reply whose *nested* state is damaged is reported as an error, as the property wants.
#[tokio::test]
async fn control_honest_and_damaged_nested_state() {
    let honest = honest_reply().await;

    let (_, state) = ask(honest.clone()).await.expect("honest reply is accepted");
    for id in 1..=3u64 {
        assert!(state.get(&id).is_some());
    }

    // Declaring the state 8 bytes shorter cuts its root off: still inside the message,
    // but no longer a valid archive.
    let end = honest.len();
    let real_len = u32::from_le_bytes(honest[end - 8..end - 4].try_into().unwrap());
    let res = ask(with_declared_len(honest, real_len - 8)).await;
    assert!(res.is_err(), "a damaged nested state must be an error");
}

/// The body of the child process: one `get_state` against the peer with the altered length.
#[tokio::test]
async fn child_get_state_from_peer_with_overlong_declared_state() {
    if std::env::var_os(CHILD_ENV).is_none() {
        return;
    }

    let reply = with_declared_len(honest_reply().await, 1 << 30);
    let res = ask(reply).await;
    match res {
        Err(status) => println!("CHILD: get_state reported an error: {status:?}"),
        Ok(_) => {
            println!("CHILD: get_state USED a state that is not in the reply");
            std::process::exit(3);
        },
    }
}

#[test]
fn undecodable_state_is_reported_as_an_error() {
    let exe = std::env::current_exe().unwrap();
    let out = Command::new(exe)
        .args([
            "--exact",
            "child_get_state_from_peer_with_overlong_declared_state",
            "--nocapture",
            "--test-threads=1",
        ])
        .env(CHILD_ENV, "1")
        .output()
        .unwrap();

    let stdout = String::from_utf8_lossy(&out.stdout);
    println!("child status: {:?}\nchild stdout:\n{stdout}", out.status);

    #[cfg(unix)]
    {
        use std::os::unix::process::ExitStatusExt;
        assert_eq!(
            out.status.signal(),
            None,
            "the node asking for the state was killed by a signal instead of getting an \
             error (11 = SIGSEGV): the reply's declared state length was trusted unchecked",
        );
    }
    assert!(
        out.status.success() && stdout.contains("CHILD: get_state reported an error"),
        "get_state must report a state which cannot be decoded as an error",
    );
}
