use std::hash::{Hash, Hasher};
use std::time::{Duration, Instant};

use datacake_crdt::{HLCTimestamp, OrSWotSet};
use rkyv::collections::hash_index::HashBuilder;

fn h(key: u64) -> u64 {
    let mut hasher = HashBuilder::with_seeds(
        0x08576fb6170b5f5f,
        0x587775eeb84a7e46,
        0xac701115428ee569,
        0x910feb91b92bb1cd,
    );
    key.hash(&mut hasher);
    hasher.finish()
}

#[test]
fn probe() {
    for n in [16u64, 20, 32] {
        let ids: Vec<u64> = (0u64..).filter(|id| h(*id) % n == 0).take(n as usize).collect();
        let mut set = OrSWotSet::<2>::default();
        let mut clock = HLCTimestamp::now(0, 1);
        for id in &ids {
            assert!(set.delete(*id, clock.send().unwrap()));
        }
        let t = Instant::now();
        let bytes = set.as_bytes().unwrap();
        eprintln!("n={n} ids[..4]={:?} max_id={} serialise took {:?} ({} bytes)", &ids[..4], ids[ids.len()-1], t.elapsed(), bytes.len());
        let back = OrSWotSet::<2>::from_bytes(&bytes);
        eprintln!("   decode ok = {}", back.is_ok());
    }
    let _ = Duration::from_secs(1);
}
