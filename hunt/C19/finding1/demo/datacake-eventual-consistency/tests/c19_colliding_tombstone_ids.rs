//! C19: "The keyspace state a node obtains from a peer during repair is observably identical
//! to the peer's state at the moment it answered ... for all reachable keyspace states
//! (empty, tombstone-only, ...)".
//!
//! The peer serialises its state with rkyv (`KeyspaceActor::on_serialize`). The tombstones
//! are a `HashMap<Key, HLCTimestamp>`, which rkyv archives as a "compress, hash and displace"
//! perfect hash table built with a *fixed, public* hasher (`ArchivedHashIndex::make_hasher`).
//! Document ids are plain `u64`s chosen by the user of the store. When the ids of the
//! tombstones of a keyspace all fall into one bucket of that table, building it is a brute
//! force search over up to 2^31 seeds whose success probability per seed is `n!/n^n`:
//! 20 such tombstones take ~30 s to serialise (debug build), 32 cannot be serialised at all.
//!
//! Below, a real single node store (public API only: `put` then `del` of 32 documents) is the
//! peer, and a `ReplicationClient` asks it for the state of the keyspace like the repair
//! cycle does. With ids `1..=32` the state arrives in milliseconds and is identical; with 32
//! ids below 1100 picked so that they collide, the peer never answers, and because the state
//! is serialised inside the keyspace actor, every later operation on that keyspace of the
//! peer hangs as well.
//!
//! The scenario runs in a child process (this test binary re-executed), since the peer ends
//! up spinning in a runtime worker thread which cannot be cancelled.
#![cfg(all(feature = "verif", feature = "test-utils"))]

use std::collections::BTreeSet;
use std::hash::{Hash, Hasher};
use std::net::SocketAddr;
use std::process::{Command, Stdio};
use std::time::{Duration, Instant};

use datacake_crdt::OrSWotSet;
use datacake_eventual_consistency::test_utils::MemStore;
use datacake_eventual_consistency::verif::ReplicationClient;
use datacake_eventual_consistency::{
    EventuallyConsistentStore,
    EventuallyConsistentStoreExtension,
};
use datacake_node::{
    Clock,
    ConnectionConfig,
    Consistency,
    DCAwareSelector,
    DatacakeNodeBuilder,
};
use datacake_rpc::Channel;
use tokio::time::timeout;

const CHILD_ENV: &str = "C19_TOMBSTONES_CHILD";
const NUM_TOMBSTONES: u64 = 32;
const ANSWER_DEADLINE: Duration = Duration::from_secs(20);

/// The hash rkyv uses to place a `u64` key in an archived hash map
/// (`rkyv::collections::ArchivedHashIndex::make_hasher`, the seeds are constants of rkyv).
fn rkyv_bucket_hash(key: u64) -> u64 {
    let mut hasher = rkyv::collections::hash_index::HashBuilder::with_seeds(
        0x08576fb6170b5f5f,
        0x587775eeb84a7e46,
        0xac701115428ee569,
        0x910feb91b92bb1cd,
    );
    key.hash(&mut hasher);
    hasher.finish()
}

/// The first `n` document ids which land in bucket 0 of an archived hash map of `n` entries.
fn colliding_ids(n: u64) -> Vec<u64> {
    (0u64..)
        .filter(|id| rkyv_bucket_hash(*id) % n == 0)
        .take(n as usize)
        .collect()
}

async fn create_store(addr: SocketAddr) -> EventuallyConsistentStore<MemStore> {
    let connection_cfg = ConnectionConfig::new(addr, addr, Vec::<String>::new());
    let node = DatacakeNodeBuilder::<DCAwareSelector>::new(1, connection_cfg)
        .connect()
        .await
        .expect("Connect node.");

    node.add_extension(EventuallyConsistentStoreExtension::new(MemStore::default()))
        .await
        .expect("Create store.")
}

/// Writes then deletes `ids` on the peer through its public handle, then fetches the state
/// of the keyspace the way the repair cycle does. `true` if the very tombstones arrived.
async fn write_delete_fetch(
    store: &EventuallyConsistentStore<MemStore>,
    client: &mut ReplicationClient<MemStore>,
    keyspace: &str,
    ids: &[u64],
) -> bool {
    let handle = store.handle();
    for id in ids {
        handle
            .put(keyspace, *id, b"some data".to_vec(), Consistency::None)
            .await
            .expect("put");
        handle
            .del(keyspace, *id, Consistency::None)
            .await
            .expect("del");
    }

    let start = Instant::now();
    match timeout(ANSWER_DEADLINE, client.get_state(keyspace)).await {
        Err(_) => {
            println!(
                "CHILD [{keyspace}] NO ANSWER from the peer within {ANSWER_DEADLINE:?} \
                 ({} tombstones, largest id {})",
                ids.len(),
                ids.iter().max().unwrap(),
            );
            false
        },
        Ok(Err(status)) => {
            println!("CHILD [{keyspace}] get_state failed: {status:?}");
            false
        },
        Ok(Ok((_, state))) => {
            let (live, dead) = OrSWotSet::<2>::default().diff(&state);
            let dead: BTreeSet<u64> = dead.into_iter().map(|(id, _)| id).collect();
            let same = live.is_empty() && dead == ids.iter().copied().collect::<BTreeSet<u64>>();
            println!(
                "CHILD [{keyspace}] state obtained in {:?}: {} tombstones, identical = {same}",
                start.elapsed(),
                dead.len(),
            );
            same
        },
    }
}

#[tokio::test(flavor = "multi_thread", worker_threads = 4)]
async fn child_scenario() {
    if std::env::var_os(CHILD_ENV).is_none() {
        return;
    }

    let addr = test_helper::get_unused_addr();
    let store = create_store(addr).await;
    let mut client =
        ReplicationClient::<MemStore>::new(Clock::new(2), Channel::connect(addr));

    // Control: 32 tombstones with ordinary ids.
    let ordinary: Vec<u64> = (1..=NUM_TOMBSTONES).collect();
    let control_ok = write_delete_fetch(&store, &mut client, "ordinary-ids", &ordinary).await;

    // 32 tombstones whose (small) ids collide in rkyv's hash index.
    let colliding = colliding_ids(NUM_TOMBSTONES);
    println!("CHILD colliding ids: {colliding:?}");
    let colliding_ok =
        write_delete_fetch(&store, &mut client, "colliding-ids", &colliding).await;

    // The consequence for the peer itself: its keyspace actor is stuck in `on_serialize`.
    if !colliding_ok {
        let handle = store.handle();
        let put = handle.put("colliding-ids", 424242, b"x".to_vec(), Consistency::None);
        match timeout(Duration::from_secs(5), put).await {
            Err(_) => println!("CHILD the peer's own put on that keyspace HANGS as well"),
            Ok(res) => println!("CHILD the peer's own put on that keyspace returned {res:?}"),
        }
    }

    // The runtime cannot be dropped while a worker spins: leave directly.
    use std::io::Write;
    std::io::stdout().flush().unwrap();
    std::process::exit(match (control_ok, colliding_ok) {
        (true, true) => 0,
        (false, _) => 5,
        (true, false) => 4,
    });
}

#[test]
fn tombstone_only_state_is_obtained_unchanged() {
    let exe = std::env::current_exe().unwrap();
    let mut child = Command::new(exe)
        .args(["--exact", "child_scenario", "--nocapture", "--test-threads=1"])
        .env(CHILD_ENV, "1")
        .stdout(Stdio::piped())
        .stderr(Stdio::null())
        .spawn()
        .unwrap();

    // Safety net, the child leaves by itself after ~30 s.
    let deadline = Instant::now() + Duration::from_secs(120);
    while child.try_wait().unwrap().is_none() {
        if Instant::now() > deadline {
            child.kill().unwrap();
            break;
        }
        std::thread::sleep(Duration::from_millis(200));
    }
    let out = child.wait_with_output().unwrap();
    let stdout = String::from_utf8_lossy(&out.stdout);
    println!("child status: {:?}\nchild stdout:\n{stdout}", out.status);

    assert!(
        stdout.contains("CHILD [ordinary-ids] state obtained")
            && stdout.contains("32 tombstones, identical = true"),
        "control failed: the set-up itself is broken",
    );
    assert!(
        stdout.contains("CHILD [colliding-ids] state obtained"),
        "the state of a keyspace holding 32 tombstones could not be obtained from the peer",
    );
    assert_eq!(out.status.code(), Some(0));
}
