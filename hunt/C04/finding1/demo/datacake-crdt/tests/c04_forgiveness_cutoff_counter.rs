//! C04 demonstration: the safe cut-off of `NodeVersions` inherits the *counter* of the newest
//! stamp seen from an origin (`compute_safe_last_stamp`), and its time is clamped at zero.
//! As a consequence operations which are NOT older than the forgiveness window (3600s in every
//! real build, which is what an integration test links against) are refused, the outcome
//! depends on the arrival order, and a key whose greatest operation is an insert is not live.
//!
//! Run with:
//!   cargo test --offline -p datacake-crdt --test c04_forgiveness_cutoff_counter

use std::time::Duration;

use datacake_crdt::{HLCTimestamp, OrSWotSet};

const WINDOW: Duration = Duration::from_secs(3_600);

fn ts(millis: u64, counter: u16, node: u8) -> HLCTimestamp {
    HLCTimestamp::new(Duration::from_millis(millis), counter, node)
}

#[derive(Clone, Copy, Debug)]
enum Kind {
    Insert,
    Delete,
}

#[derive(Clone, Copy, Debug)]
struct Op {
    kind: Kind,
    key: u64,
    ts: HLCTimestamp,
    source: usize,
}

fn permutations<T: Clone>(items: &[T]) -> Vec<Vec<T>> {
    if items.len() <= 1 {
        return vec![items.to_vec()];
    }
    let mut out = vec![];
    for i in 0..items.len() {
        let mut rest = items.to_vec();
        let x = rest.remove(i);
        for mut p in permutations(&rest) {
            p.insert(0, x.clone());
            out.push(p);
        }
    }
    out
}

/// Applies `ops` in the given order, checking the whole of C04 after every step:
/// * precondition: no op is older than the forgiveness window relative to the newest stamp
///   the replica has already seen from the op's origin (checked, panics if the schedule is
///   outside the property),
/// * `will_apply` just before == return value == "the op is the greatest seen on its key",
/// * every key is live at `t` iff its greatest op so far is an insert at `t`.
fn check_schedule<const N: usize>(ops: &[Op]) -> Result<(), String> {
    let mut set = OrSWotSet::<N>::default();
    let mut seen_from_origin: std::collections::BTreeMap<u8, HLCTimestamp> = Default::default();
    let mut greatest: std::collections::BTreeMap<u64, (HLCTimestamp, Kind)> = Default::default();

    for (step, op) in ops.iter().enumerate() {
        if let Some(newest) = seen_from_origin.get(&op.ts.node()) {
            assert!(
                op.ts.datacake_timestamp() + WINDOW >= newest.datacake_timestamp(),
                "schedule is outside the property: {op:?} is older than the window"
            );
        }
        let newest = seen_from_origin.entry(op.ts.node()).or_insert(op.ts);
        *newest = (*newest).max(op.ts);

        let should_change = greatest.get(&op.key).map(|(t, _)| *t < op.ts).unwrap_or(true);
        if should_change {
            greatest.insert(op.key, (op.ts, op.kind));
        }

        let predicted = set.will_apply(op.key, op.ts);
        let returned = match op.kind {
            Kind::Insert => set.insert_with_source(op.source, op.key, op.ts),
            Kind::Delete => set.delete_with_source(op.source, op.key, op.ts),
        };

        if predicted != should_change || returned != should_change {
            return Err(format!(
                "step {step} {op:?}: greatest-so-far on its key => must change the view: \
                 {should_change}, will_apply said {predicted}, the call returned {returned}"
            ));
        }

        for (key, (t, kind)) in &greatest {
            let want = match kind {
                Kind::Insert => Some(*t),
                Kind::Delete => None,
            };
            let got = set.get(key).copied();
            if got != want {
                return Err(format!(
                    "after step {step}: key {key} should be {want:?} but the replica has {got:?}"
                ));
            }
        }
    }

    Ok(())
}

fn check_all_orders<const N: usize>(ops: &[Op]) {
    let mut failures = vec![];
    let orders = permutations(ops);
    for order in &orders {
        if let Err(e) = check_schedule::<N>(order) {
            failures.push(format!("{order:?}\n  -> {e}"));
        }
    }
    assert!(
        failures.is_empty(),
        "{} of {} arrival orders violate C04; first:\n{}",
        failures.len(),
        orders.len(),
        failures[0]
    );
}

/// An operation that is ONE SECOND older than the newest one seen from its origin is refused.
///
/// newest seen from node 0: (1.000s, counter 5). `compute_safe_last_stamp` produces the cut-off
/// (1s - 3600s clamped to 0s, counter 5, node 0) = (0s, c5, n0), so (0s, c3, n0) "is before the
/// last observed event" although it is 3599 seconds inside the forgiveness window.
#[test]
fn one_second_old_operation_is_refused_near_the_epoch() {
    let newer = ts(1_000, 5, 0);
    let older = ts(0, 3, 0);

    // Arrival order 1: older first. Everything is fine.
    let mut a = OrSWotSet::<1>::default();
    assert!(a.insert(1, older));
    assert!(a.insert(2, newer));
    assert_eq!(a.get(&1), Some(&older));
    assert_eq!(a.get(&2), Some(&newer));

    // Arrival order 2: newer first. Same two operations, different keys, 1 second apart.
    let mut b = OrSWotSet::<1>::default();
    assert!(b.insert(2, newer));
    let predicted = b.will_apply(1, older);
    let returned = b.insert(1, older);
    assert!(
        predicted && returned && b.get(&1) == Some(&older),
        "the only (hence greatest) operation on key 1 is an insert at {older}, which is 1s older \
         than the newest stamp seen from node 0 ({newer}) and therefore well inside the 3600s \
         forgiveness window; yet will_apply={predicted}, insert returned {returned}, \
         get(1)={:?} (arrival order older-first gives {:?})",
        b.get(&1),
        a.get(&1),
    );
}

/// The same at a realistic wall clock time: an operation whose time is exactly one forgiveness
/// window before the newest seen stamp is accepted or refused depending on nothing but how its
/// *counter* compares to the counter of that newest stamp.
#[test]
fn operation_exactly_one_window_old_is_refused_depending_on_counters() {
    // "now" in datacake time, aligned to a whole second.
    let base = Duration::from_secs(datacake_crdt::get_datacake_timestamp().as_secs());
    let newest = HLCTimestamp::new(base, 7, 3);
    let same_age_low_counter = HLCTimestamp::new(base - WINDOW, 6, 3);
    let same_age_high_counter = HLCTimestamp::new(base - WINDOW, 8, 3);

    let mut set = OrSWotSet::<2>::default();
    // Both sources have caught up with node 3.
    assert!(set.insert_with_source(0, 100, newest));
    assert!(!set.insert_with_source(1, 100, newest));

    // Neither of the two is *older than* the window: both are exactly 3600.000s old.
    assert!(set.will_apply(10, same_age_high_counter));
    assert!(set.insert_with_source(0, 10, same_age_high_counter));
    assert_eq!(set.get(&10), Some(&same_age_high_counter));

    let predicted = set.will_apply(11, same_age_low_counter);
    let returned = set.delete_with_source(1, 11, same_age_low_counter);
    let predicted_ins = set.will_apply(12, same_age_low_counter);
    let returned_ins = set.insert_with_source(0, 12, same_age_low_counter);
    assert!(
        predicted && returned && predicted_ins && returned_ins,
        "an operation of exactly the same age as an accepted one is refused because its counter \
         (6) is below the counter (7) of the newest stamp seen from node 3: \
         delete: will_apply={predicted} returned={returned}; \
         insert: will_apply={predicted_ins} returned={returned_ins} get(12)={:?}",
        set.get(&12)
    );
}

/// The quantifier of C04: all arrival orders, 1 source.
#[test]
fn all_arrival_orders_one_source() {
    check_all_orders::<1>(&[
        Op { kind: Kind::Insert, key: 1, ts: ts(0, 0, 0), source: 0 },
        Op { kind: Kind::Delete, key: 1, ts: ts(0, 1, 0), source: 0 },
        Op { kind: Kind::Insert, key: 2, ts: ts(0, 2, 0), source: 0 },
    ]);
}

/// The quantifier of C04: all arrival orders, 2 sources. Every source must have seen something
/// from the origin before the cut-off moves, hence four operations.
#[test]
fn all_arrival_orders_two_sources() {
    let base = Duration::from_secs(datacake_crdt::get_datacake_timestamp().as_secs());
    let ms = base.as_millis() as u64;
    check_all_orders::<2>(&[
        Op { kind: Kind::Insert, key: 1, ts: ts(ms - 3_600_000, 0, 1), source: 0 },
        Op { kind: Kind::Insert, key: 2, ts: ts(ms - 3_600_000, 9, 1), source: 1 },
        Op { kind: Kind::Delete, key: 2, ts: ts(ms, 4, 1), source: 0 },
        Op { kind: Kind::Insert, key: 3, ts: ts(ms, 5, 1), source: 1 },
    ]);
}
