//! C17 finding 4: the LMDB backend maps the keyspace name straight onto LMDB keys and LMDB
//! database names (`try_create_dbs` in `datacake-lmdb/src/db.rs`), so some `&str` keyspace
//! names that the `Storage` contract allows ("A new keyspace name should not result in an
//! error being returned by the storage trait") do not behave like the reference model:
//!
//! * `""`                       -> `MDB_BAD_VALSIZE` (LMDB keys must not be empty),
//! * a name of 500 bytes        -> `MDB_BAD_VALSIZE` (name + "datacake--meta" > 511 bytes),
//! * a name with a NUL byte     -> `CString::new(..).unwrap()` inside heed panics on the
//!   storage thread; the thread dies and from then on EVERY call on EVERY keyspace of this
//!   `LmdbStorage` panics ("keyspaces never affect one another").
//!
//! SQLite and the in-memory backend accept all of these names (checked in the scratch tests,
//! see NOTES.md); `MemStore` plays the reference model here.

use std::env::temp_dir;
use std::sync::Arc;

use datacake_crdt::HLCTimestamp;
use datacake_eventual_consistency::test_utils::MemStore;
use datacake_eventual_consistency::{Document, Storage};
use datacake_lmdb::LmdbStorage;
use uuid::Uuid;

async fn open_lmdb() -> LmdbStorage {
    let path = temp_dir().join(Uuid::new_v4().to_string());
    std::fs::create_dir_all(&path).unwrap();
    LmdbStorage::open(path).await.expect("open lmdb")
}

fn doc(id: u64) -> Document {
    let ts = HLCTimestamp::new(std::time::Duration::from_secs(id + 1), 0, 1);
    Document::new(id, ts, b"payload".to_vec())
}

async fn put_get_compare(keyspace: &str) {
    let lmdb = open_lmdb().await;
    let model = MemStore::default();

    model.put(keyspace, doc(1)).await.expect("model put");
    let res = lmdb.put(keyspace, doc(1)).await;
    assert!(
        res.is_ok(),
        "put into keyspace {:?} ({} bytes) failed on LMDB: {:?}",
        if keyspace.len() > 20 { &keyspace[..20] } else { keyspace },
        keyspace.len(),
        res
    );
    assert_eq!(
        lmdb.get(keyspace, 1).await.unwrap(),
        model.get(keyspace, 1).await.unwrap()
    );
    assert_eq!(
        lmdb.get_keyspace_list().await.unwrap(),
        model.get_keyspace_list().await.unwrap()
    );
}

#[tokio::test]
async fn empty_keyspace_name() {
    put_get_compare("").await;
}

#[tokio::test]
async fn keyspace_name_of_500_bytes() {
    put_get_compare(&"k".repeat(500)).await;
}

/// A NUL byte in one keyspace name takes down the whole store, including a keyspace that
/// was working a moment ago.
#[tokio::test]
async fn nul_byte_in_a_keyspace_name_kills_every_keyspace() {
    let lmdb = Arc::new(open_lmdb().await);
    let model = MemStore::default();

    lmdb.put("healthy", doc(1)).await.expect("put into healthy keyspace");
    model.put("healthy", doc(1)).await.unwrap();
    model.put("odd\0name", doc(2)).await.expect("the model does not mind the name");

    // The calls run in their own tasks so that a panic is reported instead of aborting the test.
    let store = lmdb.clone();
    let odd = tokio::spawn(async move {
        store.put("odd\0name", doc(2)).await.map_err(|e| e.to_string())
    })
    .await;

    let store = lmdb.clone();
    let healthy = tokio::spawn(async move {
        store.get("healthy", 1).await.map_err(|e| e.to_string())
    })
    .await;

    let describe = |r: &Result<_, tokio::task::JoinError>| match r {
        Ok(inner) => format!("{inner:?}"),
        Err(e) => format!("PANIC: {e}"),
    };
    let odd_txt = match &odd {
        Ok(inner) => format!("{inner:?}"),
        Err(e) => format!("PANIC: {e}"),
    };
    let expected = model.get("healthy", 1).await.unwrap();
    assert!(
        matches!(&healthy, Ok(Ok(got)) if *got == expected),
        "put(\"odd\\0name\", 2) -> {}\nthen get(\"healthy\", 1) -> {}\nmodel: {:?}",
        odd_txt,
        describe(&healthy),
        expected
    );
}
