//! C17 finding 3: the three bundled backends do not agree on `get_keyspace_list`, so they
//! cannot all "return the same keyspace lists as a simple map-based reference model".
//!
//! * LMDB (`datacake-lmdb/src/db.rs`, `submit_task` -> `try_create_dbs`) creates and
//!   *persists* a keyspace on every access, including pure reads (`get`, `multi_get`,
//!   `iter_metadata`) of a keyspace nobody ever wrote to.
//! * SQLite (`datacake-sqlite/src/lib.rs`, `SELECT DISTINCT keyspace FROM state_entries`)
//!   derives the list from the rows, so a keyspace vanishes when its last tombstone is
//!   purged and is never created by a call that writes no row.
//! * The in-memory store (`test_utils::MemStore`) keeps a keyspace for ever once a write
//!   call named it (even an empty `multi_put`), and never creates one on reads or purges.
//!
//! Each test runs the same short call sequence on all three backends and only requires that
//! the three answers are the same set - which is necessary whatever the reference model says.
//!
//! Run with:
//!   cargo test --offline --features datacake-sqlite,datacake-lmdb,test-utils --test c17_keyspace_lists

use std::collections::BTreeSet;
use std::path::PathBuf;
use std::sync::atomic::{AtomicU64, Ordering};

use datacake::crdt::HLCTimestamp;
use datacake::eventual_consistency::test_utils::MemStore;
use datacake::eventual_consistency::{Document, Storage};
use datacake::lmdb::LmdbStorage;
use datacake::sqlite::SqliteStorage;

static COUNTER: AtomicU64 = AtomicU64::new(0);

fn scratch(name: &str) -> PathBuf {
    std::env::temp_dir().join(format!(
        "c17-kslist-{}-{}-{}",
        name,
        std::process::id(),
        COUNTER.fetch_add(1, Ordering::SeqCst)
    ))
}

fn block_on<F: std::future::Future<Output = ()>>(f: F) {
    tokio::runtime::Builder::new_current_thread()
        .enable_all()
        .build()
        .unwrap()
        .block_on(f)
}

fn ts(secs: u64) -> HLCTimestamp {
    HLCTimestamp::new(std::time::Duration::from_secs(secs), 0, 1)
}

fn assert_agree(lists: [BTreeSet<String>; 3], after: &str) {
    let [lmdb, sqlite, mem] = lists;
    assert!(
        lmdb == sqlite && sqlite == mem,
        "get_keyspace_list after {after}:\n    lmdb   = {lmdb:?}\n    sqlite = {sqlite:?}\n    mem    = {mem:?}",
    );
}

struct Backends {
    lmdb: LmdbStorage,
    lmdb_path: PathBuf,
    sqlite: SqliteStorage,
    sqlite_path: PathBuf,
    mem: MemStore,
}

impl Backends {
    async fn open() -> Self {
        let lmdb_path = scratch("lmdb");
        std::fs::create_dir_all(&lmdb_path).unwrap();
        let sqlite_path = scratch("sqlite.db");
        Self {
            lmdb: LmdbStorage::open(&lmdb_path).await.unwrap(),
            sqlite: SqliteStorage::open(&sqlite_path).await.unwrap(),
            mem: MemStore::default(),
            lmdb_path,
            sqlite_path,
        }
    }

    /// Closes and reopens the two persistent backends.
    async fn reopen(self) -> Self {
        let Self { lmdb, sqlite, lmdb_path, sqlite_path, mem } = self;

        let env = lmdb.handle().env().clone();
        drop(lmdb);
        env.prepare_for_closing().wait(); // really closes the LMDB environment
        let lmdb = LmdbStorage::open(&lmdb_path).await.unwrap();

        drop(sqlite);
        let sqlite = SqliteStorage::open(&sqlite_path).await.unwrap();

        Self { lmdb, sqlite, lmdb_path, sqlite_path, mem }
    }

    async fn lists(&self) -> [BTreeSet<String>; 3] {
        [
            self.lmdb.get_keyspace_list().await.unwrap().into_iter().collect(),
            self.sqlite.get_keyspace_list().await.unwrap().into_iter().collect(),
            self.mem.get_keyspace_list().await.unwrap().into_iter().collect(),
        ]
    }

    async fn assert_lists_agree(&self, after: &str) {
        assert_agree(self.lists().await, after);
    }

    /// Takes the three lists, removes the scratch files, and only then compares.
    async fn finish(self, after: &str) {
        let lists = self.lists().await;
        self.cleanup();
        assert_agree(lists, after);
    }

    fn cleanup(self) {
        let Self { lmdb, sqlite, lmdb_path, sqlite_path, .. } = self;
        drop(lmdb);
        drop(sqlite);
        let _ = std::fs::remove_dir_all(lmdb_path);
        for suffix in ["", "-wal", "-shm"] {
            let _ = std::fs::remove_file(format!("{}{suffix}", sqlite_path.display()));
        }
    }
}

/// A read of a keyspace that was never written changes the keyspace list of the LMDB
/// backend - durably.
#[test]
fn reads_do_not_create_keyspaces() {
    block_on(async {
        let b = Backends::open().await;

        let doc = Document::new(1, ts(1), b"x".to_vec());
        b.lmdb.put("real", doc.clone()).await.unwrap();
        b.sqlite.put("real", doc.clone()).await.unwrap();
        b.mem.put("real", doc.clone()).await.unwrap();
        b.assert_lists_agree("put(real, 1)").await; // all three: {"real"}

        assert!(b.lmdb.get("ghost-1", 1).await.unwrap().is_none());
        assert!(b.sqlite.get("ghost-1", 1).await.unwrap().is_none());
        assert!(b.mem.get("ghost-1", 1).await.unwrap().is_none());

        assert_eq!(b.lmdb.iter_metadata("ghost-2").await.unwrap().count(), 0);
        assert_eq!(b.sqlite.iter_metadata("ghost-2").await.unwrap().count(), 0);
        assert_eq!(b.mem.iter_metadata("ghost-2").await.unwrap().count(), 0);

        assert_eq!(b.lmdb.multi_get("ghost-3", [1, 2].into_iter()).await.unwrap().count(), 0);
        assert_eq!(b.sqlite.multi_get("ghost-3", [1, 2].into_iter()).await.unwrap().count(), 0);
        assert_eq!(b.mem.multi_get("ghost-3", [1, 2].into_iter()).await.unwrap().count(), 0);

        let b = b.reopen().await;

        b.finish("put(real, 1); get(ghost-1, 1); iter_metadata(ghost-2); multi_get(ghost-3, [1, 2]); reopen")
            .await;
    });
}

/// Purging the last tombstone of a keyspace removes the keyspace from the SQLite backend's
/// list; the other two keep it.
#[test]
fn purging_the_last_tombstone() {
    block_on(async {
        let b = Backends::open().await;

        b.lmdb.mark_as_tombstone("ks", 1, ts(1)).await.unwrap();
        b.sqlite.mark_as_tombstone("ks", 1, ts(1)).await.unwrap();
        b.mem.mark_as_tombstone("ks", 1, ts(1)).await.unwrap();
        b.assert_lists_agree("mark_as_tombstone(ks, 1)").await; // all three: {"ks"}

        b.lmdb.remove_tombstones("ks", [1].into_iter()).await.unwrap();
        b.sqlite.remove_tombstones("ks", [1].into_iter()).await.unwrap();
        b.mem.remove_tombstones("ks", [1].into_iter()).await.unwrap();

        b.finish("mark_as_tombstone(ks, 1); remove_tombstones(ks, [1])").await;
    });
}

/// Write calls that end up writing nothing: an empty `multi_put` and a purge in a new keyspace
/// (for which the trait documentation says "if the given keyspace does not exist, it should be
/// created"). All three backends answer differently.
#[test]
fn writes_of_nothing() {
    block_on(async {
        let b = Backends::open().await;

        b.lmdb.multi_put("empty", std::iter::empty()).await.unwrap();
        b.sqlite.multi_put("empty", std::iter::empty()).await.unwrap();
        b.mem.multi_put("empty", std::iter::empty()).await.unwrap();

        b.lmdb.remove_tombstones("purged", [1].into_iter()).await.unwrap();
        b.sqlite.remove_tombstones("purged", [1].into_iter()).await.unwrap();
        b.mem.remove_tombstones("purged", [1].into_iter()).await.unwrap();

        b.finish("multi_put(empty, []); remove_tombstones(purged, [1])").await;
    });
}

/// Why the phantom keyspaces of the LMDB backend matter: every one of them takes two of the
/// 250 named databases of the environment (`MAX_NUM_DBS`). After 124 reads of keyspaces that
/// do not exist, no new keyspace can be written any more - reads in some keyspaces have
/// broken writes in another one ("keyspaces never affect one another").
#[test]
fn reads_of_missing_keyspaces_break_writes_elsewhere() {
    block_on(async {
        let b = Backends::open().await;

        for i in 0..124 {
            let name = format!("missing-{i}");
            assert!(b.lmdb.get(&name, 1).await.unwrap().is_none());
            assert!(b.sqlite.get(&name, 1).await.unwrap().is_none());
            assert!(b.mem.get(&name, 1).await.unwrap().is_none());
        }

        let doc = Document::new(1, ts(1), b"x".to_vec());
        b.mem.put("real", doc.clone()).await.unwrap();
        b.sqlite.put("real", doc.clone()).await.unwrap();
        let res = b.lmdb.put("real", doc.clone()).await.map_err(|e| e.to_string());
        b.cleanup();
        assert_eq!(res, Ok(()), "put(real, 1) on LMDB after 124 reads of missing keyspaces");
    });
}
