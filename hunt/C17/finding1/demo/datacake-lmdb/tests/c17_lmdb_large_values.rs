//! C17 finding 1: the LMDB backend cannot hold "large values".
//!
//! `datacake-lmdb/src/db.rs` opens the environment with a hard coded
//! `DEFAULT_MAP_SIZE = 10 << 20` (10 MiB) and `LmdbStorage::open` offers no way to
//! change it. The map size bounds the *whole* database (all keyspaces, documents,
//! metadata, free pages and the copy-on-write shadow of whatever the running
//! transaction touches), so perfectly legal `Storage` calls with large documents
//! are answered with `MDB_MAP_FULL`, while the reference model (and the in-memory
//! and SQLite backends) store and return the documents unchanged.
//!
//! Every test compares the LMDB backend with the bundled in-memory backend
//! (`MemStore`), which here plays the role of the map based reference model.

use std::env::temp_dir;

use datacake_crdt::HLCTimestamp;
use datacake_eventual_consistency::test_utils::MemStore;
use datacake_eventual_consistency::{Document, Storage};
use datacake_lmdb::LmdbStorage;
use uuid::Uuid;

const MIB: usize = 1 << 20;

async fn open_lmdb() -> LmdbStorage {
    let path = temp_dir().join(Uuid::new_v4().to_string());
    std::fs::create_dir_all(&path).unwrap();
    LmdbStorage::open(path).await.expect("open lmdb")
}

/// A well formed timestamp: `secs` seconds after the datacake epoch, node 1.
fn ts(secs: u64) -> HLCTimestamp {
    HLCTimestamp::new(std::time::Duration::from_secs(secs), 0, 1)
}

/// Twelve different documents of 1 MiB each in one keyspace.
#[tokio::test]
async fn twelve_one_mebibyte_documents() {
    let lmdb = open_lmdb().await;
    let model = MemStore::default();

    for id in 0..12u64 {
        let doc = Document::new(id, ts(id + 1), vec![id as u8; MIB]);

        model.put("docs", doc.clone()).await.expect("model put");
        let res = lmdb.put("docs", doc.clone()).await;
        assert!(
            res.is_ok(),
            "put of 1 MiB document #{id} failed on LMDB: {:?}",
            res
        );

        let expected = model.get("docs", id).await.unwrap();
        let got = lmdb.get("docs", id).await.unwrap();
        assert_eq!(got, expected, "document #{id} differs from the model");
    }
}

/// One single document of 10 MiB.
#[tokio::test]
async fn one_ten_mebibyte_document() {
    let lmdb = open_lmdb().await;
    let model = MemStore::default();

    let doc = Document::new(u64::MAX, ts(1), vec![0xAB; 10 * MIB]);
    model.put("docs", doc.clone()).await.expect("model put");
    let res = lmdb.put("docs", doc.clone()).await;
    assert!(res.is_ok(), "put of a 10 MiB document failed on LMDB: {:?}", res);

    let expected = model.get("docs", u64::MAX).await.unwrap();
    let got = lmdb.get("docs", u64::MAX).await.unwrap();
    assert_eq!(got, expected);
}

/// The store never holds more than ONE live document of 6 MiB, it is only updated in place.
/// LMDB is copy-on-write, so the update needs the old and the new pages at the same time.
#[tokio::test]
async fn updating_one_six_mebibyte_document() {
    let lmdb = open_lmdb().await;
    let model = MemStore::default();

    for version in 0..3u64 {
        let doc = Document::new(7, ts(version + 1), vec![version as u8; 6 * MIB]);
        model.put("docs", doc.clone()).await.expect("model put");
        let res = lmdb.put("docs", doc.clone()).await;
        assert!(
            res.is_ok(),
            "update #{version} of the 6 MiB document failed on LMDB: {:?}",
            res
        );

        let expected = model.get("docs", 7).await.unwrap();
        let got = lmdb.get("docs", 7).await.unwrap();
        assert_eq!(got, expected, "version {version} differs from the model");
    }
}

/// Once the map is full the store cannot even delete: `mark_as_tombstone` needs fresh pages too.
#[tokio::test]
async fn a_full_store_cannot_tombstone() {
    let lmdb = open_lmdb().await;
    let model = MemStore::default();

    // Fill the store with ever smaller documents until nothing fits any more. Only the
    // documents LMDB accepted go into the model, so up to here both agree by construction.
    let mut id = 0u64;
    for size in [MIB, 64 << 10, 4 << 10, 64, 0] {
        loop {
            let doc = Document::new(id, ts(id + 1), vec![1u8; size]);
            if lmdb.put("docs", doc.clone()).await.is_err() {
                break;
            }
            model.put("docs", doc).await.unwrap();
            id += 1;
        }
    }
    assert!(id > 0);

    // Deleting document 0 (1 MiB) is a legal call and would free a tenth of the store.
    model.mark_as_tombstone("docs", 0, ts(id + 1)).await.unwrap();
    let res = lmdb.mark_as_tombstone("docs", 0, ts(id + 1)).await;
    assert!(res.is_ok(), "tombstoning in a full LMDB store failed: {:?}", res);

    let expected = model.get("docs", 0).await.unwrap();
    let got = lmdb.get("docs", 0).await.unwrap();
    assert_eq!(got, expected);
}
