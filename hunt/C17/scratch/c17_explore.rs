//! Exploratory differential test (scratch).
use std::collections::{BTreeMap, BTreeSet};
use std::path::PathBuf;
use std::sync::atomic::{AtomicU64, Ordering};

use datacake::crdt::{HLCTimestamp, Key};
use datacake::eventual_consistency::test_utils::MemStore;
use datacake::eventual_consistency::{Document, DocumentMetadata, Storage};
use datacake::lmdb::LmdbStorage;
use datacake::sqlite::SqliteStorage;

static CTR: AtomicU64 = AtomicU64::new(0);

fn tmp(name: &str) -> PathBuf {
    let n = CTR.fetch_add(1, Ordering::SeqCst);
    let p = std::env::temp_dir().join(format!(
        "c17-{}-{}-{}-{}",
        name,
        std::process::id(),
        n,
        std::time::SystemTime::now()
            .duration_since(std::time::UNIX_EPOCH)
            .unwrap()
            .as_nanos()
    ));
    p
}

struct Rng(u64);
impl Rng {
    fn next(&mut self) -> u64 {
        self.0 ^= self.0 << 13;
        self.0 ^= self.0 >> 7;
        self.0 ^= self.0 << 17;
        self.0
    }
    fn below(&mut self, n: u64) -> u64 {
        self.next() % n
    }
}

type Model = BTreeMap<String, BTreeMap<Key, (u64, Option<Vec<u8>>)>>;

#[derive(Debug, Clone)]
enum Op {
    Put(String, Key, u64, Vec<u8>),
    MultiPut(String, Vec<(Key, u64, Vec<u8>)>),
    Tomb(String, Key, u64),
    MultiTomb(String, Vec<(Key, u64)>),
    Purge(String, Vec<Key>),
    Reopen,
}

const KS: [&str; 3] = ["a", "b", "a-kv"];
const IDS: [u64; 6] = [0, 1, u64::MAX, 1 << 63, (1 << 63) - 1, 256];

fn valid_ts(r: &mut Rng) -> u64 {
    let secs = match r.below(4) {
        0 => 0,
        1 => (1u64 << 32) - 1,
        _ => r.below(1 << 32),
    };
    let frac = r.below(250);
    let counter = match r.below(3) {
        0 => 0,
        1 => 0xFFFF,
        _ => r.below(1 << 16),
    };
    let node = r.below(256);
    (secs << 32) | (frac << 24) | (counter << 8) | node
}

fn payload(r: &mut Rng) -> Vec<u8> {
    let len = match r.below(6) {
        0 => 0,
        1 => 1,
        2 => 4096,
        3 => 70_000,
        _ => r.below(300) as usize,
    };
    (0..len).map(|_| r.next() as u8).collect()
}

fn gen_op(r: &mut Rng, model: &Model) -> Op {
    let ks = KS[r.below(3) as usize].to_string();
    let id = IDS[r.below(6) as usize];
    match r.below(12) {
        0..=2 => Op::Put(ks, id, valid_ts(r), payload(r)),
        3..=4 => {
            let n = r.below(4);
            Op::MultiPut(
                ks,
                (0..n)
                    .map(|_| (IDS[r.below(6) as usize], valid_ts(r), payload(r)))
                    .collect(),
            )
        },
        5..=6 => Op::Tomb(ks, id, valid_ts(r)),
        7..=8 => {
            let n = r.below(4);
            Op::MultiTomb(
                ks,
                (0..n)
                    .map(|_| (IDS[r.below(6) as usize], valid_ts(r)))
                    .collect(),
            )
        },
        9..=10 => {
            // only tombstoned keys (contract)
            let keys: Vec<Key> = model
                .get(&ks)
                .map(|m| {
                    m.iter()
                        .filter(|(_, (_, d))| d.is_none())
                        .map(|(k, _)| *k)
                        .collect()
                })
                .unwrap_or_default();
            let keys = keys.into_iter().filter(|_| r.below(2) == 0).collect();
            Op::Purge(ks, keys)
        },
        _ => Op::Reopen,
    }
}

fn apply_model(m: &mut Model, op: &Op) {
    match op {
        Op::Put(ks, id, ts, data) => {
            m.entry(ks.clone())
                .or_default()
                .insert(*id, (*ts, Some(data.clone())));
        },
        Op::MultiPut(ks, docs) => {
            let e = m.entry(ks.clone()).or_default();
            for (id, ts, data) in docs {
                e.insert(*id, (*ts, Some(data.clone())));
            }
        },
        Op::Tomb(ks, id, ts) => {
            m.entry(ks.clone()).or_default().insert(*id, (*ts, None));
        },
        Op::MultiTomb(ks, docs) => {
            let e = m.entry(ks.clone()).or_default();
            for (id, ts) in docs {
                e.insert(*id, (*ts, None));
            }
        },
        Op::Purge(ks, keys) => {
            if let Some(e) = m.get_mut(ks) {
                for k in keys {
                    e.remove(k);
                }
            }
        },
        Op::Reopen => {},
    }
}

async fn apply_store<S: Storage>(s: &S, op: &Op) {
    match op {
        Op::Put(ks, id, ts, data) => {
            s.put(
                ks,
                Document::new(*id, HLCTimestamp::from_u64(*ts), data.clone()),
            )
            .await
            .expect("put");
        },
        Op::MultiPut(ks, docs) => {
            s.multi_put(
                ks,
                docs.clone().into_iter().map(|(id, ts, data)| {
                    Document::new(id, HLCTimestamp::from_u64(ts), data)
                }),
            )
            .await
            .expect("multi_put");
        },
        Op::Tomb(ks, id, ts) => {
            s.mark_as_tombstone(ks, *id, HLCTimestamp::from_u64(*ts))
                .await
                .expect("tomb");
        },
        Op::MultiTomb(ks, docs) => {
            s.mark_many_as_tombstone(
                ks,
                docs.clone().into_iter().map(|(id, ts)| {
                    DocumentMetadata::new(id, HLCTimestamp::from_u64(ts))
                }),
            )
            .await
            .expect("multi tomb");
        },
        Op::Purge(ks, keys) => {
            s.remove_tombstones(ks, keys.clone().into_iter())
                .await
                .expect("purge");
        },
        Op::Reopen => {},
    }
}

async fn observe<S: Storage>(s: &S, m: &Model, what: &str, hist: &[Op]) {
    for ks in KS {
        let empty = BTreeMap::new();
        let mm = m.get(ks).unwrap_or(&empty);
        // get
        for id in IDS {
            let got = s.get(ks, id).await.expect("get");
            let exp = mm.get(&id).and_then(|(ts, d)| {
                d.as_ref().map(|d| {
                    Document::new(id, HLCTimestamp::from_u64(*ts), d.clone())
                })
            });
            assert_eq!(got, exp, "{what}: get({ks},{id}) after {:?}", hist.last());
        }
        // multi_get
        let got: Vec<Document> = s
            .multi_get(ks, IDS.into_iter())
            .await
            .expect("multi_get")
            .collect();
        let exp: Vec<Document> = IDS
            .iter()
            .filter_map(|id| {
                mm.get(id).and_then(|(ts, d)| {
                    d.as_ref().map(|d| {
                        Document::new(*id, HLCTimestamp::from_u64(*ts), d.clone())
                    })
                })
            })
            .collect();
        let mut g = got.clone();
        g.sort_by_key(|d| d.id());
        let mut e = exp.clone();
        e.sort_by_key(|d| d.id());
        assert_eq!(g, e, "{what}: multi_get({ks}) after {:?}", hist.last());
        // metadata
        let got: Vec<(Key, HLCTimestamp, bool)> =
            s.iter_metadata(ks).await.expect("iter_metadata").collect();
        let gs: BTreeSet<(Key, u64, bool)> =
            got.iter().map(|(k, t, b)| (*k, t.as_u64(), *b)).collect();
        assert_eq!(gs.len(), got.len(), "{what}: dup metadata");
        let es: BTreeSet<(Key, u64, bool)> = mm
            .iter()
            .map(|(k, (t, d))| (*k, *t, d.is_none()))
            .collect();
        assert_eq!(gs, es, "{what}: iter_metadata({ks}) after {:?}", hist.last());
    }
    let list = s.get_keyspace_list().await.expect("ks list");
    let ls: BTreeSet<String> = list.iter().cloned().collect();
    assert_eq!(ls.len(), list.len(), "{what}: dup keyspaces {list:?}");
    for (ks, mm) in m {
        if !mm.is_empty() {
            assert!(ls.contains(ks), "{what}: keyspace {ks} missing from {list:?}");
        }
    }
}

async fn close_lmdb(s: LmdbStorage, hard: bool) {
    let env = s.handle().env().clone();
    drop(s);
    if hard {
        // wait for bg thread to drop its env
        let ev = env.prepare_for_closing();
        ev.wait();
    }
}

fn run(seed: u64, steps: usize) {
    let rt = tokio::runtime::Builder::new_current_thread()
        .enable_all()
        .build()
        .unwrap();
    rt.block_on(async move {
        let mut r = Rng(seed | 1);
        let sp = tmp("sqlite");
        let lp = tmp("lmdb");
        std::fs::create_dir_all(&lp).unwrap();
        let mut sq = SqliteStorage::open(&sp).await.unwrap();
        let mut lm = LmdbStorage::open(&lp).await.unwrap();
        let mem = MemStore::default();
        let mut model = Model::new();
        let mut hist = Vec::new();
        for _ in 0..steps {
            let op = gen_op(&mut r, &model);
            hist.push(op.clone());
            if let Op::Reopen = op {
                drop(sq);
                sq = SqliteStorage::open(&sp).await.unwrap();
                let hard = r.below(2) == 0;
                close_lmdb(lm, hard).await;
                lm = LmdbStorage::open(&lp).await.unwrap();
            } else {
                apply_store(&sq, &op).await;
                apply_store(&lm, &op).await;
                apply_store(&mem, &op).await;
                apply_model(&mut model, &op);
            }
            observe(&sq, &model, "sqlite", &hist).await;
            observe(&lm, &model, "lmdb", &hist).await;
            observe(&mem, &model, "mem", &hist).await;
        }
        drop(sq);
        close_lmdb(lm, false).await;
        let _ = std::fs::remove_file(&sp);
        let _ = std::fs::remove_dir_all(&lp);
    });
}

#[test]
fn explore() {
    for seed in 1..250u64 {
        eprintln!("seed {seed}");
        run(seed * 104729 + 17, 90);
    }
}
