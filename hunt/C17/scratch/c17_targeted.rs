//! Targeted hypotheses (scratch).
use std::path::PathBuf;
use std::sync::atomic::{AtomicU64, Ordering};

use datacake::crdt::HLCTimestamp;
use datacake::eventual_consistency::test_utils::MemStore;
use datacake::eventual_consistency::{Document, Storage};
use datacake::lmdb::LmdbStorage;
use datacake::sqlite::SqliteStorage;

static CTR: AtomicU64 = AtomicU64::new(0);

fn tmp(name: &str) -> PathBuf {
    let n = CTR.fetch_add(1, Ordering::SeqCst);
    std::env::temp_dir().join(format!(
        "c17t-{}-{}-{}-{}",
        name,
        std::process::id(),
        n,
        std::time::SystemTime::now()
            .duration_since(std::time::UNIX_EPOCH)
            .unwrap()
            .as_nanos()
    ))
}

fn rt() -> tokio::runtime::Runtime {
    tokio::runtime::Builder::new_current_thread()
        .enable_all()
        .build()
        .unwrap()
}

async fn lmdb() -> (LmdbStorage, PathBuf) {
    let p = tmp("lmdb");
    std::fs::create_dir_all(&p).unwrap();
    (LmdbStorage::open(&p).await.unwrap(), p)
}

async fn sqlite() -> (SqliteStorage, PathBuf) {
    let p = tmp("sqlite");
    (SqliteStorage::open(&p).await.unwrap(), p)
}

fn ts(v: u64) -> HLCTimestamp {
    HLCTimestamp::from_u64(v)
}

#[test]
fn t1_sqlite_ts_frac() {
    rt().block_on(async {
        let (s, _) = sqlite().await;
        let raw = (5u64 << 32) | (250u64 << 24) | (7 << 8) | 3;
        s.put("k", Document::new(1, ts(raw), b"x".to_vec()))
            .await
            .unwrap();
        let d = s.get("k", 1).await;
        eprintln!("T1 sqlite get: {:?}  expected ts {} ({})", d, ts(raw), raw);
        let raw2 = (((1u64 << 32) - 1) << 32) | (255u64 << 24);
        s.put("k2", Document::new(1, ts(raw2), b"x".to_vec()))
            .await
            .unwrap();
        let d = s.get("k2", 1).await;
        eprintln!("T1 sqlite get max: {:?}", d);
        let d = s.iter_metadata("k2").await.map(|i| i.collect::<Vec<_>>());
        eprintln!("T1 sqlite meta max: {:?}", d);
    });
}

#[test]
fn t2_lmdb_large() {
    rt().block_on(async {
        let (s, _) = lmdb().await;
        for i in 0..12u64 {
            let r = s
                .put("k", Document::new(i, ts(i << 32), vec![i as u8; 1 << 20]))
                .await;
            eprintln!("T2 put {i}: {:?}", r.as_ref().map_err(|e| e.to_string()));
        }
        let (s, _) = lmdb().await;
        let r = s
            .put("k", Document::new(1, ts(1 << 32), vec![1u8; 10 << 20]))
            .await;
        eprintln!("T2 put 10MiB: {:?}", r.as_ref().map_err(|e| e.to_string()));
        let (s, _) = lmdb().await;
        for i in 0..4u64 {
            let r = s
                .put("k", Document::new(1, ts(i << 32), vec![i as u8; 6 << 20]))
                .await;
            eprintln!(
                "T2 overwrite 6MiB #{i}: {:?}",
                r.as_ref().map_err(|e| e.to_string())
            );
        }
        let d = s.get("k", 1).await.unwrap().unwrap();
        eprintln!("T2 after: ts {} first byte {}", d.last_updated(), d.data()[0]);
    });
}

#[test]
fn t3_keyspace_lists() {
    rt().block_on(async {
        let (l, _) = lmdb().await;
        let (q, _) = sqlite().await;
        let m = MemStore::default();

        // reads
        let _ = l.get("ghost", 1).await.unwrap();
        let _ = q.get("ghost", 1).await.unwrap();
        let _ = m.get("ghost", 1).await.unwrap();
        eprintln!(
            "T3 after get(ghost): lmdb {:?} sqlite {:?} mem {:?}",
            l.get_keyspace_list().await.unwrap(),
            q.get_keyspace_list().await.unwrap(),
            m.get_keyspace_list().await.unwrap()
        );
        // tombstone + purge
        l.mark_as_tombstone("t", 1, ts(1 << 32)).await.unwrap();
        q.mark_as_tombstone("t", 1, ts(1 << 32)).await.unwrap();
        m.mark_as_tombstone("t", 1, ts(1 << 32)).await.unwrap();
        eprintln!(
            "T3 after tomb(t): lmdb {:?} sqlite {:?} mem {:?}",
            l.get_keyspace_list().await.unwrap(),
            q.get_keyspace_list().await.unwrap(),
            m.get_keyspace_list().await.unwrap()
        );
        l.remove_tombstones("t", [1].into_iter()).await.unwrap();
        q.remove_tombstones("t", [1].into_iter()).await.unwrap();
        m.remove_tombstones("t", [1].into_iter()).await.unwrap();
        eprintln!(
            "T3 after purge(t): lmdb {:?} sqlite {:?} mem {:?}",
            l.get_keyspace_list().await.unwrap(),
            q.get_keyspace_list().await.unwrap(),
            m.get_keyspace_list().await.unwrap()
        );
        // empty multi_put
        l.multi_put("e", std::iter::empty()).await.unwrap();
        q.multi_put("e", std::iter::empty()).await.unwrap();
        m.multi_put("e", std::iter::empty()).await.unwrap();
        eprintln!(
            "T3 after empty multi_put(e): lmdb {:?} sqlite {:?} mem {:?}",
            l.get_keyspace_list().await.unwrap(),
            q.get_keyspace_list().await.unwrap(),
            m.get_keyspace_list().await.unwrap()
        );
        // purge on new keyspace
        l.remove_tombstones("p", [1].into_iter()).await.unwrap();
        q.remove_tombstones("p", [1].into_iter()).await.unwrap();
        m.remove_tombstones("p", [1].into_iter()).await.unwrap();
        eprintln!(
            "T3 after purge(p): lmdb {:?} sqlite {:?} mem {:?}",
            l.get_keyspace_list().await.unwrap(),
            q.get_keyspace_list().await.unwrap(),
            m.get_keyspace_list().await.unwrap()
        );
    });
}

#[test]
fn t4_lmdb_names() {
    rt().block_on(async {
        for name in ["", "a/b", "ü", &"x".repeat(400), &"x".repeat(600)] {
            let (l, _) = lmdb().await;
            let r = l.put(name, Document::new(1, ts(1 << 32), b"x".to_vec())).await;
            eprintln!(
                "T4 lmdb put ks len {} : {:?}",
                name.len(),
                r.as_ref().map_err(|e| e.to_string())
            );
            if r.is_ok() {
                eprintln!("   get {:?}", l.get(name, 1).await.unwrap().is_some());
            }
        }
        for name in ["", "a\0b", &"x".repeat(600)] {
            let (q, _) = sqlite().await;
            let r = q.put(name, Document::new(1, ts(1 << 32), b"x".to_vec())).await;
            eprintln!(
                "T4 sqlite put ks len {} : {:?} get {:?} list {:?}",
                name.len(),
                r.as_ref().map_err(|e| e.to_string()),
                q.get(name, 1).await.unwrap().is_some(),
                q.get_keyspace_list().await.unwrap() == vec![name.to_string()],
            );
        }
        // NUL: a\0b and a\0c and "a" must be distinct in sqlite
        let (q, _) = sqlite().await;
        q.put("a\0b", Document::new(1, ts(1 << 32), b"1".to_vec())).await.unwrap();
        q.put("a\0c", Document::new(1, ts(2 << 32), b"2".to_vec())).await.unwrap();
        q.put("a", Document::new(1, ts(3 << 32), b"3".to_vec())).await.unwrap();
        eprintln!(
            "T4 sqlite nul: {:?} {:?} {:?} {:?}",
            q.get("a\0b", 1).await.unwrap().map(|d| d.data().to_vec()),
            q.get("a\0c", 1).await.unwrap().map(|d| d.data().to_vec()),
            q.get("a", 1).await.unwrap().map(|d| d.data().to_vec()),
            q.get_keyspace_list().await.unwrap()
        );
    });
}

#[test]
fn t4b_lmdb_nul() {
    let r = std::panic::catch_unwind(|| {
        rt().block_on(async {
            let (l, _) = lmdb().await;
            l.put("ok", Document::new(1, ts(1 << 32), b"x".to_vec())).await.unwrap();
            let l = std::sync::Arc::new(l);
            let l2 = l.clone();
            let r = tokio::spawn(async move {
                l2.put("a\0b", Document::new(1, ts(1 << 32), b"x".to_vec())).await.map_err(|e| e.to_string())
            })
            .await;
            eprintln!("T4b put nul: {:?}", r);
            let l2 = l.clone();
            let r = tokio::spawn(async move {
                l2.get("ok", 1).await.map_err(|e| e.to_string())
            })
            .await;
            eprintln!("T4b get ok afterwards: {:?}", r);
        })
    });
    eprintln!("T4b outer: {:?}", r.is_ok());
}

#[test]
fn t6_purge_live() {
    rt().block_on(async {
        let (q, _) = sqlite().await;
        let m = MemStore::default();
        q.put("k", Document::new(1, ts(1 << 32), b"x".to_vec())).await.unwrap();
        m.put("k", Document::new(1, ts(1 << 32), b"x".to_vec())).await.unwrap();
        q.remove_tombstones("k", [1].into_iter()).await.unwrap();
        m.remove_tombstones("k", [1].into_iter()).await.unwrap();
        eprintln!(
            "T6 sqlite get {:?} meta {:?}; mem get {:?} meta {:?}",
            q.get("k", 1).await.unwrap().is_some(),
            q.iter_metadata("k").await.unwrap().count(),
            m.get("k", 1).await.unwrap().is_some(),
            m.iter_metadata("k").await.unwrap().count()
        );
    });
}

#[test]
fn t7_lmdb_many_keyspaces() {
    rt().block_on(async {
        let (l, _) = lmdb().await;
        for i in 0..130 {
            let r = l.get(&format!("ks{i}"), 1).await;
            if r.is_err() {
                eprintln!("T7 get ks{i}: {:?}", r.map_err(|e| e.to_string()));
                break;
            }
        }
        let r = l.put("fresh", Document::new(1, ts(1 << 32), b"x".to_vec())).await;
        eprintln!("T7 put fresh: {:?}", r.map_err(|e| e.to_string()));
    });
}

#[test]
fn t8_lmdb_reopen_list() {
    rt().block_on(async {
        let (l, p) = lmdb().await;
        l.put("a", Document::new(1, ts(1 << 32), b"x".to_vec())).await.unwrap();
        let env = l.handle().env().clone();
        drop(l);
        env.prepare_for_closing().wait();
        let l = LmdbStorage::open(&p).await.unwrap();
        eprintln!("T8 list after reopen {:?}", l.get_keyspace_list().await.unwrap());
        eprintln!("T8 get {:?}", l.get("a", 1).await.unwrap());
    });
}

#[test]
fn t9_lmdb_many_reopens() {
    rt().block_on(async {
        let (l, p) = lmdb().await;
        l.put("a", Document::new(1, ts(1 << 32), b"x".to_vec())).await.unwrap();
        drop(l);
        for i in 0..400 {
            let l = match LmdbStorage::open(&p).await {
                Ok(l) => l,
                Err(e) => { eprintln!("T9 open #{i}: {e}"); break; }
            };
            let r = l.get("a", 1).await;
            if let Err(e) = &r { eprintln!("T9 get #{i}: {e}"); break; }
            l.put("a", Document::new(2, ts((i as u64) << 32), b"y".to_vec())).await.unwrap();
            drop(l);
        }
        eprintln!("T9 done");
    });
}

#[test]
fn t10_lmdb_full_then_delete() {
    rt().block_on(async {
        let (l, _p) = lmdb().await;
        let mut i = 0u64;
        for size in [1usize << 20, 1 << 16, 1 << 12, 64, 0] {
            loop {
                let r = l.put("a", Document::new(i, ts(i << 32), vec![7u8; size])).await;
                if let Err(e) = r { eprintln!("T10 size {size} failed at doc {i}: {e}"); break; }
                i += 1;
            }
        }
        let r = l.mark_as_tombstone("a", 0, ts(i << 32)).await;
        eprintln!("T10 tombstone doc 0 when full: {:?}", r.map_err(|e| e.to_string()));
        let r = l.put("b", Document::new(1, ts(1 << 32), Vec::new())).await;
        eprintln!("T10 new keyspace when full: {:?}", r.map_err(|e| e.to_string()));
        let r = l.get("c", 1).await;
        eprintln!("T10 read of new keyspace when full: {:?}", r.map_err(|e| e.to_string()));
        eprintln!("T10 list {:?}", l.get_keyspace_list().await);
    });
}

#[test]
fn t11_multi_get_dups_and_order() {
    rt().block_on(async {
        let (l, _p) = lmdb().await;
        let (q, _) = sqlite().await;
        let m = MemStore::default();
        for id in [3u64, 1, 2] {
            let d = Document::new(id, ts(id << 32), vec![id as u8]);
            l.put("a", d.clone()).await.unwrap();
            q.put("a", d.clone()).await.unwrap();
            m.put("a", d.clone()).await.unwrap();
        }
        let ids = [2u64, 9, 2, 3, 1, 1];
        let a: Vec<u64> = l.multi_get("a", ids.into_iter()).await.unwrap().map(|d| d.id()).collect();
        let b: Vec<u64> = q.multi_get("a", ids.into_iter()).await.unwrap().map(|d| d.id()).collect();
        let c: Vec<u64> = m.multi_get("a", ids.into_iter()).await.unwrap().map(|d| d.id()).collect();
        eprintln!("T11 lmdb {a:?} sqlite {b:?} mem {c:?}");
    });
}

#[test]
fn t12_lmdb_name_boundary() {
    rt().block_on(async {
        for n in [496usize, 497, 498, 511, 512] {
            let (l, _p) = lmdb().await;
            let r = l.put(&"k".repeat(n), Document::new(1, ts(1 << 32), Vec::new())).await;
            eprintln!("T12 len {n}: {:?}", r.map_err(|e| e.to_string()));
        }
    });
}

#[test]
fn t13_sqlite_large_and_names() {
    rt().block_on(async {
        let (q, p) = sqlite().await;
        for (i, size) in [1usize << 20, 10 << 20, 32 << 20].into_iter().enumerate() {
            let data: Vec<u8> = (0..size).map(|j| (j * 31 + i) as u8).collect();
            q.put("big", Document::new(i as u64, ts(1 << 32), data.clone())).await.unwrap();
        }
        drop(q);
        let q = SqliteStorage::open(&p).await.unwrap();
        for (i, size) in [1usize << 20, 10 << 20, 32 << 20].into_iter().enumerate() {
            let data: Vec<u8> = (0..size).map(|j| (j * 31 + i) as u8).collect();
            let d = q.get("big", i as u64).await.unwrap().unwrap();
            eprintln!("T13 sqlite {size} bytes equal after reopen: {}", d.data() == &data[..]);
        }
        for name in ["a/b", "ü", "a b", "'; DROP TABLE state_entries; --"] {
            q.put(name, Document::new(1, ts(1 << 32), name.as_bytes().to_vec())).await.unwrap();
        }
        for name in ["a/b", "ü", "a b", "'; DROP TABLE state_entries; --"] {
            let d = q.get(name, 1).await.unwrap().unwrap();
            eprintln!("T13 sqlite name {name:?}: {}", d.data() == name.as_bytes());
        }
        eprintln!("T13 list {:?}", q.get_keyspace_list().await.unwrap());
    });
}

#[test]
fn t14_lmdb_purge_live() {
    rt().block_on(async {
        let (l, _p) = lmdb().await;
        l.put("k", Document::new(1, ts(1 << 32), b"x".to_vec())).await.unwrap();
        l.remove_tombstones("k", [1].into_iter()).await.unwrap();
        eprintln!("T14 meta count {}", l.iter_metadata("k").await.unwrap().count());
        let l = std::sync::Arc::new(l);
        let l2 = l.clone();
        let r = tokio::spawn(async move { l2.get("k", 1).await.map_err(|e| e.to_string()) }).await;
        eprintln!("T14 get: {:?}", r.map_err(|e| e.to_string()));
    });
}
