//! C17 finding 2: the SQLite backend does not return timestamps unchanged.
//!
//! `datacake-sqlite/src/lib.rs` stores `doc.last_updated().to_string()` in a TEXT column and
//! reads it back with `HLCTimestamp::from_str`. That text round trip is not the identity on
//! the 64 bit timestamp: the 8 bit `fractional` field (units of 4 ms) is printed as it is, but
//! parsed through `parts_as_duration` + `duration_to_parts`, so the values 250..=255
//! (1000..=1020 ms) carry over into the seconds field. The stored timestamp comes back
//! *different* (one second later, fractional 0..=5), and when the seconds field is already
//! `TIMESTAMP_MAX` the row cannot be read at all any more, which makes `get` fail and makes
//! `iter_metadata` fail for the whole keyspace.
//!
//! The LMDB and in-memory backends keep the raw `u64` and are not affected. The in-memory
//! backend (`MemStore`) is used as the reference model below.

use std::collections::BTreeSet;
use std::env::temp_dir;

use datacake_crdt::{HLCTimestamp, Key};
use datacake_eventual_consistency::test_utils::MemStore;
use datacake_eventual_consistency::{Document, Storage};
use datacake_sqlite::SqliteStorage;
use uuid::Uuid;

fn pack(seconds: u64, fractional: u8, counter: u16, node: u8) -> HLCTimestamp {
    HLCTimestamp::from_u64(
        (seconds << 32) | ((fractional as u64) << 24) | ((counter as u64) << 8) | node as u64,
    )
}

async fn metadata<S: Storage>(s: &S, keyspace: &str) -> BTreeSet<(Key, u64, bool)> {
    s.iter_metadata(keyspace)
        .await
        .expect("iter_metadata")
        .map(|(id, ts, tombstone)| (id, ts.as_u64(), tombstone))
        .collect()
}

/// One document, one timestamp: what goes in is not what comes out.
#[tokio::test]
async fn timestamp_comes_back_changed() {
    let sqlite = SqliteStorage::open_in_memory().await.unwrap();
    let model = MemStore::default();

    let ts = pack(5, 250, 7, 3);
    let doc = Document::new(1, ts, b"hello".to_vec());
    sqlite.put("ks", doc.clone()).await.unwrap();
    model.put("ks", doc.clone()).await.unwrap();

    let expected = model.get("ks", 1).await.unwrap();
    let got = sqlite.get("ks", 1).await.unwrap();
    assert_eq!(
        got.as_ref().map(|d| d.last_updated().as_u64()),
        expected.as_ref().map(|d| d.last_updated().as_u64()),
        "get: stored {} ({}), model returns {:?}, sqlite returns {:?}",
        ts,
        ts.as_u64(),
        expected.as_ref().map(|d| d.last_updated().to_string()),
        got.as_ref().map(|d| d.last_updated().to_string()),
    );
}

/// The same through tombstones and `iter_metadata`, for every value of the fractional field,
/// and with the order of two versions flipped by the storage layer.
#[tokio::test]
async fn every_fractional_value_round_trips() {
    let sqlite = SqliteStorage::open_in_memory().await.unwrap();
    let model = MemStore::default();

    for fractional in 0..=255u8 {
        let id = fractional as u64;
        let ts = pack(1_000, fractional, 0xBEEF, 9);
        if fractional % 2 == 0 {
            let doc = Document::new(id, ts, vec![fractional]);
            sqlite.put("ks", doc.clone()).await.unwrap();
            model.put("ks", doc).await.unwrap();
        } else {
            sqlite.mark_as_tombstone("ks", id, ts).await.unwrap();
            model.mark_as_tombstone("ks", id, ts).await.unwrap();
        }
    }

    let expected = metadata(&model, "ks").await;
    let got = metadata(&sqlite, "ks").await;
    let wrong: Vec<_> = expected.symmetric_difference(&got).collect();
    assert!(
        wrong.is_empty(),
        "iter_metadata differs from the model in {} entries (id, ts, tombstone): {:?}",
        wrong.len(),
        wrong
    );
}

/// `a < b` before they are stored, `a > b` when they are read back.
#[tokio::test]
async fn storage_flips_the_order_of_two_versions() {
    let sqlite = SqliteStorage::open_in_memory().await.unwrap();

    let a = pack(5, 255, 9, 1); // 5 s + 1020 ms, counter 9
    let b = pack(6, 0, 0, 2); // 6 s, counter 0
    assert!(a < b, "as packed u64 (the order the CRDT uses) a is older than b");

    sqlite.mark_as_tombstone("ks", 1, a).await.unwrap();
    sqlite.put("ks", Document::new(2, b, Vec::new())).await.unwrap();

    let mut read_a = None;
    let mut read_b = None;
    for (id, ts, _) in sqlite.iter_metadata("ks").await.unwrap() {
        match id {
            1 => read_a = Some(ts),
            2 => read_b = Some(ts),
            _ => unreachable!(),
        }
    }
    let (read_a, read_b) = (read_a.unwrap(), read_b.unwrap());
    assert!(
        read_a < read_b,
        "stored a={a} < b={b}, read back a={read_a} >= b={read_b}"
    );
}

/// With the seconds field at its maximum the row becomes unreadable, and it takes the whole
/// keyspace with it - also after closing and reopening the database file.
#[tokio::test]
async fn one_timestamp_makes_the_keyspace_unreadable() {
    let path = temp_dir().join(format!("{}.db", Uuid::new_v4()));
    let sqlite = SqliteStorage::open(&path).await.unwrap();
    let model = MemStore::default();

    // A perfectly ordinary document ...
    let healthy = Document::new(1, pack(1_000, 10, 0, 1), b"healthy".to_vec());
    // ... and one whose timestamp has all 40 time bits set.
    let late = Document::new(2, pack(u32::MAX as u64, 255, 0, 1), b"late".to_vec());

    for doc in [healthy, late] {
        model.put("ks", doc.clone()).await.unwrap();
        sqlite
            .put("ks", doc)
            .await
            .expect("sqlite accepts both puts without complaint");
    }

    drop(sqlite);
    let sqlite = SqliteStorage::open(&path).await.unwrap();

    let got = sqlite.get("ks", 2).await;
    let listing = sqlite
        .iter_metadata("ks")
        .await
        .map(|it| it.map(|(id, ts, t)| (id, ts.as_u64(), t)).collect::<BTreeSet<_>>());

    let _ = std::fs::remove_file(&path);
    let _ = std::fs::remove_file(path.with_extension("db-wal"));
    let _ = std::fs::remove_file(path.with_extension("db-shm"));

    let got = got.map_err(|e| e.to_string());
    let listing = listing.map_err(|e| e.to_string());
    let expected_doc = Ok(model.get("ks", 2).await.unwrap());
    let expected_listing = Ok(metadata(&model, "ks").await);
    assert!(
        got == expected_doc && listing == expected_listing,
        "after two successful puts and a reopen:\n  get(ks, 2)        = {:?}\n  model             = {:?}\n  iter_metadata(ks) = {:?}\n  model             = {:?}",
        got,
        expected_doc,
        listing,
        expected_listing,
    );
}
