use std::time::Duration;

use datacake_crdt::{HLCTimestamp, TIMESTAMP_MAX};
use datacake_eventual_consistency::{Document, Storage};
use datacake_sqlite::SqliteStorage;

#[tokio::test]
async fn sqlite_roundtrip() {
    let storage = SqliteStorage::open_in_memory().await.unwrap();
    let mut id = 0u64;
    let mut expect = Vec::new();
    for s in [0u64, 1, 9, 10, 1 << 31, TIMESTAMP_MAX - 1, TIMESTAMP_MAX] {
        for ms in [0u32, 3, 4, 40, 400, 996, 999] {
            for c in [0u16, 1, 10, 0xE0, 0x1E3, 0xFFFF] {
                for n in [0u8, 1, 255] {
                    let ts = HLCTimestamp::new(Duration::new(s, ms * 1_000_000), c, n);
                    id += 1;
                    storage.put("ks", Document::new(id, ts, b"x".to_vec())).await.unwrap();
                    let got = storage.get("ks", id).await.unwrap().unwrap();
                    assert_eq!(got.last_updated(), ts, "{ts}");
                    expect.push((id, ts));
                }
            }
        }
    }
    let meta: Vec<_> = storage.iter_metadata("ks").await.unwrap().collect();
    assert_eq!(meta.len(), expect.len());
    for (k, ts, tomb) in meta {
        assert!(!tomb);
        assert_eq!(expect[(k - 1) as usize].1, ts);
    }
    // tombstones
    for (k, ts) in &expect {
        storage.mark_as_tombstone("ks", *k, *ts).await.unwrap();
    }
    let meta: Vec<_> = storage.iter_metadata("ks").await.unwrap().collect();
    for (k, ts, tomb) in meta {
        assert!(tomb);
        assert_eq!(expect[(k - 1) as usize].1, ts);
    }
}
