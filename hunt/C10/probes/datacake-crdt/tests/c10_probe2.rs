use std::str::FromStr;
use datacake_crdt::HLCTimestamp;

struct X(u64);
impl X { fn n(&mut self) -> u64 { self.0 ^= self.0 << 13; self.0 ^= self.0 >> 7; self.0 ^= self.0 << 17; self.0 } }

#[test]
fn fuzz() {
    let mut r = X(0x9E3779B97F4A7C15);
    let alpha: Vec<char> = "0123456789-+ABCDEFabcdefxX _\u{0661}\u{ff11}\0".chars().collect();
    let mut ok = 0u64;
    for _ in 0..3_000_000 {
        let len = (r.n() % 28) as usize;
        let s: String = (0..len).map(|_| alpha[(r.n() % alpha.len() as u64) as usize]).collect();
        if let Ok(t) = HLCTimestamp::from_str(&s) { ok += 1; assert_eq!(HLCTimestamp::from_str(&t.to_string()).unwrap(), t); }
    }
    println!("ok {ok}");
    let (mut same, mut diff, mut err) = (0u64, 0u64, 0u64);
    for i in 0..2_000_000u64 {
        let mut v = r.n();
        if i % 3 == 0 { v |= 0xFFFF_FFFF_0000_0000; }
        let t = HLCTimestamp::from_u64(v);
        assert_eq!(t.as_u64(), v);
        assert_eq!((t.seconds() << 32) | ((t.fractional() as u64) << 24) | ((t.counter() as u64) << 8) | t.node() as u64, v);
        match HLCTimestamp::from_str(&t.to_string()) {
            Ok(b) if b == t => { same += 1; assert!(t.fractional() < 250); }
            Ok(_) => { diff += 1; assert!(t.fractional() >= 250); }
            Err(_) => { err += 1; assert!(t.fractional() >= 250 && t.seconds() == u32::MAX as u64); }
        }
    }
    println!("same {same} diff {diff} err {err}");
}
