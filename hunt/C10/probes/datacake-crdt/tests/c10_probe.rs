use std::str::FromStr;
use std::time::Duration;

use datacake_crdt::{HLCTimestamp, TIMESTAMP_MAX};

fn secs_grid() -> Vec<u64> {
    let mut v = vec![0, 1, 2, 255, 256, 65535, 65536, (1 << 31) - 1, 1 << 31, (1 << 31) + 1, TIMESTAMP_MAX - 1, TIMESTAMP_MAX];
    v.sort();
    v
}
fn nanos_grid() -> Vec<u32> {
    let mut v = vec![0, 1, 999_999, 1_000_000, 3_999_999, 4_000_000, 4_000_001, 7_999_999, 8_000_000, 499_999_999, 500_000_000, 995_999_999, 996_000_000, 999_000_000, 999_999_999];
    for f in 0..250u32 { v.push(f * 4_000_000); v.push(f * 4_000_000 + 3_999_999); }
    v.sort(); v.dedup();
    v
}
fn counter_grid() -> Vec<u16> { vec![0, 1, 9, 10, 15, 16, 255, 256, 0x0FFF, 0x1000, 0x7FFF, 0x8000, 0xFFFE, 0xFFFF] }
fn node_grid() -> Vec<u8> { vec![0, 1, 9, 10, 99, 100, 127, 128, 254, 255] }

#[test]
fn grid() {
    let mut all = Vec::new();
    for &s in &secs_grid() {
        for &n in &nanos_grid() {
            for &c in &counter_grid() {
                for &node in &node_grid() {
                    let d = Duration::new(s, n);
                    let ts = HLCTimestamp::new(d, c, node);
                    let frac = (n / 4_000_000) as u8;
                    assert_eq!(ts.seconds(), s);
                    assert_eq!(ts.fractional(), frac);
                    assert_eq!(ts.counter(), c);
                    assert_eq!(ts.node(), node);
                    assert_eq!(ts.datacake_timestamp(), Duration::new(s, frac as u32 * 4_000_000));
                    assert_eq!(HLCTimestamp::from_u64(ts.as_u64()), ts);
                    let txt = ts.to_string();
                    let back = HLCTimestamp::from_str(&txt).unwrap_or_else(|_| panic!("parse {txt}"));
                    assert_eq!(back, ts, "{txt}");
                    assert_eq!(back.to_string(), txt);
                    let bytes = rkyv::to_bytes::<_, 64>(&ts).unwrap();
                    let arch = rkyv::check_archived_root::<HLCTimestamp>(&bytes).unwrap();
                    assert_eq!(arch.cast(), ts);
                    assert!(*arch == ts);
                    let de: HLCTimestamp = rkyv::from_bytes(&bytes).unwrap();
                    assert_eq!(de, ts);
                    if n % 4_000_000 == 0 && (c == 0 || c == 0xFFFF || c == 1) && (node == 0 || node == 255 || node==1) && (frac < 2 || frac > 247) {
                        all.push(((s, frac, c, node), ts));
                    }
                }
            }
        }
    }
    println!("{} for ordering", all.len());
    for (ka, a) in &all {
        for (kb, b) in &all {
            assert_eq!(ka.cmp(kb), a.cmp(b));
            assert_eq!(ka.partial_cmp(kb), a.partial_cmp(b));
            assert_eq!(ka == kb, a == b);
        }
    }
}

#[test]
fn hostile() {
    let pieces = ["", "0", "1", "-", "+", "+1", "-1", "249", "250", "255", "256", "65535", "65536", "FFFF", "ffff", "10000", "+FFFF", "-0", "4294967295", "4294967296", "18446744073709551615", "18446744073709551616", "99999999999999999999999999999999999999999", " 1", "1 ", "0x1", "١", "1.0", "1e3", "\0", "G"];
    let mut ok = 0;
    for a in pieces { for b in pieces { for c in pieces { for d in pieces {
        for sep in ["-"] {
            let s = format!("{a}{sep}{b}{sep}{c}{sep}{d}");
            if let Ok(ts) = HLCTimestamp::from_str(&s) {
                ok += 1;
                let t2 = HLCTimestamp::from_str(&ts.to_string()).unwrap();
                assert_eq!(t2, ts);
                assert!(ts.fractional() < 250, "{s}");
                assert!(ts.seconds() <= TIMESTAMP_MAX);
            }
        }
    }}}}
    println!("ok = {ok}");
    for s in ["", "-", "--", "---", "----", "1-2-3", "1-2-3-4-5", "1-2-3-4-", "-1-2-3-4", "4294967295-0255-0-0", "4294967295-0250-0-0", "4294967295-0249-FFFF-255", "4294967294-0255-0-0"] {
        println!("{s:?} -> {:?}", HLCTimestamp::from_str(s).map(|t| t.to_string()));
    }
    let huge = "9".repeat(1_000_000);
    assert!(HLCTimestamp::from_str(&huge).is_err());
    let huge = format!("1-2-3-{}", "9".repeat(1_000_000));
    assert!(HLCTimestamp::from_str(&huge).is_err());
}
