//! C09 demo 1: `HLCTimestamp::send` silently wraps the 32 bit seconds field when the
//! wall clock reads 2^32 s or more after the datacake epoch. The call returns `Ok`,
//! but the issued stamp is *smaller* than the stamp issued just before, and with a
//! stalled wall clock two consecutive sends return the *same* stamp.
//!
//! Run with:
//!   cargo test --offline -p datacake-crdt --features verif --test c09_send_seconds_wrap
#![cfg(feature = "verif")]

use datacake_crdt::verif_clock::set_wall_ms;
use datacake_crdt::{HLCTimestamp, TIMESTAMP_MAX};

/// What C09 allows `send` to do: either fail leaving the clock untouched, or issue a
/// stamp with our node id that is strictly greater than everything issued before.
fn checked_send(
    clock: &mut HLCTimestamp,
    issued: &mut Vec<HLCTimestamp>,
    failures: &mut Vec<String>,
    what: &str,
) {
    let before = *clock;
    match clock.send() {
        Err(e) => {
            assert_eq!(*clock, before, "{what}: send failed ({e}) but changed the clock");
            println!("{what}: send -> Err({e}), clock unchanged (allowed)");
        },
        Ok(ts) => {
            println!(
                "{what}: before={before} ({:#018x})  issued={ts} ({:#018x})",
                before.as_u64(),
                ts.as_u64()
            );
            assert_eq!(ts.node(), before.node(), "{what}: wrong node id");
            for prev in issued.iter() {
                if !(ts > *prev) {
                    failures.push(format!(
                        "{what}: issued stamp {ts} is NOT strictly greater than the \
                         previously issued stamp {prev}"
                    ));
                }
            }
            issued.push(ts);
        },
    }
}

#[test]
fn send_wraps_seconds_field() {
    const NODE: u8 = 7;
    let mut issued = Vec::new();
    let mut failures = Vec::new();

    // A perfectly representable wall clock reading: 2 s below the top of the range.
    let wall_s = TIMESTAMP_MAX - 2;
    set_wall_ms(Some(wall_s * 1000));
    let mut clock = HLCTimestamp::now(0, NODE);
    checked_send(&mut clock, &mut issued, &mut failures, "wall = 2^32-3 s");

    // The wall clock moves FORWARD by 5 s (to 2^32 + 2 s).
    set_wall_ms(Some((wall_s + 5) * 1000));
    checked_send(&mut clock, &mut issued, &mut failures, "wall = 2^32+2 s");

    // The wall clock stalls.
    checked_send(&mut clock, &mut issued, &mut failures, "wall = 2^32+2 s (stalled)");

    set_wall_ms(None);

    for f in &failures {
        println!("VIOLATION: {f}");
    }
    assert!(failures.is_empty(), "{} C09 violations, see above", failures.len());
}
