//! C09 demo 2: `HLCTimestamp::recv` overwrites the clock with a wrapped value and only
//! then panics (inside `HLCTimestamp::new`) when the merged time does not fit the 32 bit
//! seconds field. The wall clock reading here IS representable; the trigger is a remote
//! stamp whose `fractional` byte is 250..=255 (anything `from_u64`/rkyv will hand us),
//! which `datacake_timestamp()` expands to `seconds + 1`.
//!
//! The failed request leaves the clock at ~0 s, and the next `send` then issues a stamp
//! that is smaller than one this same clock issued before.
//!
//! Run with:
//!   cargo test --offline -p datacake-crdt --features verif --test c09_recv_mutates_then_panics
#![cfg(feature = "verif")]

use std::panic::{catch_unwind, AssertUnwindSafe};

use datacake_crdt::verif_clock::set_wall_ms;
use datacake_crdt::{HLCTimestamp, TIMESTAMP_MAX};

#[test]
fn failed_recv_must_not_change_the_clock() {
    // Wall clock: 10 s below the top of the representable range, and stalled.
    set_wall_ms(Some((TIMESTAMP_MAX - 10) * 1000));

    let mut clock = HLCTimestamp::now(0, 1);
    let first = clock.send().expect("send");
    println!("issued    : {first} ({:#018x})", first.as_u64());

    // Remote stamp from node 2: seconds = 2^32-1, fractional = 255, counter = 0.
    // It is ~11 s ahead of our wall clock, far inside the 4100 s drift allowance.
    let remote = HLCTimestamp::from_u64((TIMESTAMP_MAX << 32) | (255 << 24) | 2);
    println!("remote    : {remote} ({:#018x})", remote.as_u64());

    let before = clock;
    let outcome = catch_unwind(AssertUnwindSafe(|| clock.recv(&remote)));
    println!("clock before recv: {before} ({:#018x})", before.as_u64());
    println!("clock after  recv: {clock} ({:#018x})", clock.as_u64());

    match outcome {
        Ok(Ok(_)) => {
            assert!(clock > remote, "accepted, so the clock must be greater than the remote stamp");
            assert!(clock > before);
        },
        Ok(Err(e)) => {
            println!("recv -> Err({e})");
            assert_eq!(clock, before, "recv failed ({e}) but changed the clock");
        },
        Err(_) => {
            println!("recv -> PANIC");
            assert_eq!(
                clock, before,
                "recv could not be satisfied (it panicked) but it changed the clock anyway",
            );
        },
    }

    // Consequence (only reached if the above is relaxed): the next stamp goes backwards.
    let second = clock.send().expect("send");
    assert!(second > first, "second stamp {second} is not greater than the first {first}");

}

/// Same scenario, but only looking at what the clock issues: two sends with one
/// (failed) recv in between, on a stalled wall clock.
#[test]
fn stamp_issued_after_failed_recv_goes_backwards() {
    set_wall_ms(Some((TIMESTAMP_MAX - 10) * 1000));

    let mut clock = HLCTimestamp::now(0, 1);
    let first = clock.send().expect("send");

    let remote = HLCTimestamp::from_u64((TIMESTAMP_MAX << 32) | (255 << 24) | 2);
    let _ = catch_unwind(AssertUnwindSafe(|| clock.recv(&remote)));

    let second = clock.send().expect("send");
    println!("first  = {first} ({:#018x})", first.as_u64());
    println!("second = {second} ({:#018x})", second.as_u64());
    assert!(
        second > first,
        "stamp issued after the failed recv ({second}) is not greater than the one issued \
         before it ({first})",
    );
}
