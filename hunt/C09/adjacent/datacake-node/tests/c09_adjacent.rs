use std::time::Duration;

use datacake_crdt::HLCTimestamp;
use datacake_node::Clock;

#[tokio::test]
async fn restart_regresses() {
    let clock = Clock::new(1);
    let t0 = clock.get_time().await;
    let remote = HLCTimestamp::new(t0.datacake_timestamp() + Duration::from_secs(600), 0, 2);
    clock.register_ts(remote).await;
    let t1 = clock.get_time().await;
    assert!(t1 > remote);
    drop(clock);
    // "restart" of node 1
    let clock = Clock::new(1);
    let t2 = clock.get_time().await;
    println!("t1={t1} remote={remote} t2={t2}");
    assert!(t2 > t1, "after restart node 1 issues {t2} which is below {t1} / accepted {remote}");
}

#[tokio::test]
async fn one_remote_stamp_kills_actor() {
    let clock = Clock::new(1);
    let t0 = clock.get_time().await;
    let remote = HLCTimestamp::new(t0.datacake_timestamp() + Duration::from_secs(5), u16::MAX - 1, 2);
    clock.register_ts(remote).await;
    let t1 = clock.get_time().await; // panics: actor died on Overflow
    println!("t1={t1}");
}
